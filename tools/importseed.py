#!/usr/bin/env python3
"""usage: tools/importseed.py <Cxx> <k> <pkgdir> <run-regex> <round-label>
Copies a confirmed sub-agent change from /tmp/seed/<Cxx>/seed_out into /verif/seeded/<Cxx>-<k>/."""
import sys, os, json, shutil
p, k, pkg, run, label = sys.argv[1:6]
src = f'/tmp/seed/{p}/seed_out'
dst = f'/verif/seeded/{p}-{k}'
os.makedirs(dst, exist_ok=True)
shutil.copy(f'{src}/mutant_{k}.diff', f'{dst}/patch.diff')
shutil.copy(f'{src}/demo_{k}_test.go', f'{dst}/demo_test.go.txt')
shutil.copy(f'{src}/notes_{k}.md', f'{dst}/notes.md')
notes = [l.strip() for l in open(f'{dst}/notes.md').read().split('\n') if l.strip()]
meta = {
 "id": f"{p}-{k}", "breaks_property": p,
 "source": f"written independently by a sub-agent given only the property text and a scratch worktree ({label})",
 "demo": {"file": "demo_test.go.txt", "place_in": pkg, "run": f"go test -vet=off -count=1 -run {run} ./{pkg}/"},
 "confirmed_by_me": {"how": "tools/seedval.sh in a fresh scratch worktree of /repo HEAD: patch applies, go build ./..., existing suite passes with the patch, demo fails with the patch and passes without it", "result": "confirmed"},
 "needs_to_manifest": notes,
}
json.dump(meta, open(f'{dst}/meta.json', 'w'), indent=1)
print('imported', dst)
