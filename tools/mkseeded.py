#!/usr/bin/env python3
"""Folds tools/selftest.sh results into seeded/*/meta.json and writes seeded/README.md."""
import json, os, re
R='/verif/seeded'
res={}
for l in open(f'{R}/selftest.results'):
    m=re.match(r'(\S+) check=(\S+) rc=(\d+) violations=(\d+) sig=(.*)', l.strip())
    if m: res[m.group(1)]=dict(check=m.group(2), rc=int(m.group(3)), violations=int(m.group(4)), sig=m.group(5))
EXTRA=json.load(open(f'{R}/extra_detections.json')) if os.path.exists(f'{R}/extra_detections.json') else {}
NOTES=json.load(open(f'{R}/not_detected.json')) if os.path.exists(f'{R}/not_detected.json') else {}
rows=[]
for d in sorted(os.listdir(R)):
    mp=f'{R}/{d}/meta.json'
    if not os.path.exists(mp): continue
    meta=json.load(open(mp))
    r=res.get(d)
    det=[]
    if r and r['rc']==1 and r['violations']>0:
        det.append({"check":r['check'],"tier":"quick","signature":r['sig']})
    for x in EXTRA.get(d,[]): det.append(x)
    meta['detected_by']=det
    if d in NOTES: meta['not_detected_note']=NOTES[d]
    what=open(f'{R}/{d}/notes.md').read().strip().split('\n')
    title=next((w.strip('# *-').strip() for w in what if w.strip()), '')[:150]
    meta['summary']=title
    json.dump(meta,open(mp,'w'),indent=1)
    rows.append((d, meta['breaks_property'], title, ', '.join(f"{x['check']} [{x['signature']}]" for x in det) or ('NOT DETECTED: '+NOTES.get(d,'?'))))
with open(f'{R}/README.md','w') as f:
    f.write("# Independently written property-breaking changes\n\nEach directory holds `patch.diff` (applies to /repo HEAD), the demonstration (`demo_test.go.txt`: fails with the patch, passes without; placement and command in `meta.json`), the author's `notes.md` and `meta.json`. All were written by sub-agents that saw only the property text and a scratch worktree, and were confirmed by `tools/seedval.sh` (compiles, existing suite passes, demo discriminates). `tools/selftest.sh` re-applies each one to /repo, runs the quick check of the property it breaks and restores the tree; results below are from that script.\n\n| id | breaks | change | reported by |\n|---|---|---|---|\n")
    for r in rows: f.write(f"| {r[0]} | {r[1]} | {r[2]} | {r[3]} |\n")
    own=sum(1 for r in rows if (r[1]+' [') in r[3].split(', ')[0] and not r[3].startswith('NOT'))
    other=sum(1 for r in rows if not r[3].startswith('NOT'))-own
    none=sum(1 for r in rows if r[3].startswith('NOT'))
    f.write(f"\n{own} of {len(rows)} changes are reported by the quick check of the property they break, {other} more only by the check of another property, {none} by none (reasons above).\n")
print(len(rows),'seeds')
