#!/usr/bin/env python3
"""Writes /verif/MANIFEST.json from the table below (single source of truth)."""
import json, os, sys

ROOT = os.path.join(os.path.dirname(os.path.abspath(__file__)), "..")

MC = "model_checking"
CHECKS = {
 "C02": dict(level=MC, engine="E1-gmc", technique="explicit-state BFS over the real gossip handlers (replayed event histories, canonical-state dedup), all delivery orders / bounded deviations",
   text="Every reachable state of a 2-3 node cluster built from the real clusterState/packetListener/streamListener/Gossip, under every interleaving of owner writes, compactions, gossip rounds, delivery orders, duplicates, held/lost datagrams and truncation points within the stated budgets, satisfies: views only contain entries the owner wrote, are complete up to the reported version, never roll back, and received messages never change a node's own state.",
   note="Alphabet keys {a,b}, values {1,2}; 2-3 nodes; budgets per scenario are recorded in the evidence. Digest entry order is explorer-chosen (re-encoded by the real encoder). Trusted: the harness' capture PacketConn, in-memory stream and write log.", ref="3 C02, 2.1"),
 "C03": dict(level=MC, engine="E1-gmc", technique="explicit-state BFS + deterministic fair closure of complete exchanges from every reachable state",
   text="From every state reached by the bounded exploration (diverged views, truncated deltas, losses, compactions) a fair closure of complete push-pull exchanges makes every live node's view of every live node equal to the owner's state within a bounded number of rounds.",
   note="Exhaustive over starting states; fair orders limited to the closure's family (all ordered pairs per round, rotated/reversed). Finding F1 (oversize entry) is reproduced and reported as KNOWN-FINDING. Also: membership closures, an exact-fit datagram scenario, the real gossipRound for every peer-class combination, and real gossip instances on loopback sockets (free-running, generous deadlines).", ref="3 C03, 2.1"),
 "C04": dict(level=MC, engine="E1-gmc", technique="explicit-state BFS over real gossip + real syncer + real cluster.State",
   text="In every reachable state of a 3-node cluster with the real routing syncer and routing table on each node, a node that has caught up with an owner lists exactly its addresses and endpoints, and LookupEndpoint only returns active remote nodes advertising the endpoint.",
   note="Endpoints {e1,e2}; owner ops add/remove/compact/leave; suspicion and expiry in the membership variant. Finding F3 (stale delta after expiry) reproduced as KNOWN-FINDING.", ref="3 C04"),
 "C05": dict(level=MC, engine="E3-seq + E2-sched", technique="unbounded BFS over operation sequences + preemption-bounded exhaustive schedule exploration at real lock acquisitions",
   text="Every reachable registry state under Add/Remove sequences (incl. duplicate, late and unknown removals) and every schedule of concurrent Add/Remove/Select programs up to the preemption bound keeps registry == routing table == published gossip counts (no zero-count listings), also after the periodic compaction and after a peer echoes an earlier incarnation; a peer taking the node's state at any point is told exactly the registered endpoints.",
   note="3 (quick) / 5 (thorough) upstreams on 2 endpoints; preemption bound 2 / 3. Finding D1 repaired by a fix: commit.", ref="3 C05, 2.2, 2.3"),
 "C11": dict(level=MC, engine="E1-gmc", technique="explicit-state BFS over real gossip membership handlers with a table-driven failure detector and expiry-order sweeps; exhaustive event sequences on the real clusterState with the real accrual detector on a harness clock; preemption-bounded exhaustive schedule exploration of sweep against restoration (scheduler pass)",
   text="Every reachable state under leave (every subset of peers missing the notification), crash, suspicion, recovery, expiry sweeps with skew and gossip among survivors satisfies the lifecycle clauses (local node never flagged, left is sticky and only self-declared, flagged nodes expire and are announced, flagged nodes are not routable, no re-learning from peers that know the node left, a node heard from again is restored); with the real detector in the loop the unreachable flag equals silence > threshold x mean interval after every tick of every sequence; a flagged peer is still probed by every gossip round; a node is restored only when it was heard from itself; no schedule of sweep against restoration forgets a restored node (scheduler pass, programs G, H, I).",
   note="3 nodes (4 in thorough). Findings F2/F3 (re-learning after expiry) reproduced as KNOWN-FINDING and pruned.", ref="3 C11"),
 "C14": dict(level=MC, engine="E1-gmc", technique="explicit-state BFS; recording watcher folded and compared with the view in every state; plus preemption-bounded exhaustive schedule exploration of sweep/liveness against incoming datagrams (scheduler pass)",
   text="In every explored state the fold of all watcher notifications equals the node's visible state (nodes, live keys, left/unreachable flags), and no key/flag notification precedes OnJoin.",
   note="Same scenario family as C02 plus a membership scenario. Scheduler pass: programs B, G, H; the routing table (fold of the notifications) must mirror the gossip view at quiescence. Detector loop with the real accrual detector: the fold of reachable/unreachable/expired notifications equals the flag after every event.", ref="3 C14, 2.2"),
 "C15": dict(level=MC, engine="E3-seq + E2-sched", technique="unbounded BFS over Add/Remove/Select sequences + preemption-bounded schedule exploration with brute-force linearisability",
   text="Every Select result in every reachable balancer state is a currently registered upstream of exactly that endpoint (remote only when allowed and nothing is local); from every reachable state any window of n selections is a permutation of the n members; concurrent Select results are linearisable.",
   note="4-5 upstreams, 3 endpoints, one remote node. Preemption bound 2 / 3. Separate free-running -race pass (sampling) for unsynchronised cursor updates.", ref="3 C15"),
 "C17": dict(level=MC, engine="E3-seq", technique="unbounded BFS over upsert/delete/compact/leave/sync sequences on the real clusterState with rank-abstracted versions; exhaustive bulk-size grid; preemption-bounded exhaustive schedule exploration of compaction against local writes (scheduler pass)",
   text="Every reachable state of a node's own key-value state (keys x values incl. empty, deletes, compaction, leave, writes after leave, observer syncs, late re-delivery of its own old state) agrees with a map+counter reference; compaction keeps live keys and drops tombstones; stale and fresh observers agree after synchronising; owners with up to 300 (1000) keys synchronise completely through whole deltas and through datagram-sized deltas; observers that join over the stream with state of their own, and observers behind on two nodes at once at every datagram size of a sweep, end with the owner's keys; no schedule of compaction against local writes loses a write (scheduler pass, program J).",
   note="Versions are compared only by order in the code, so states are identified up to order-isomorphism of versions (argument in DESIGN.md). Finding D2 repaired by a fix: commit.", ref="3 C17"),
 "C20": dict(level=MC, engine="E2-sched", technique="iterative preemption-bounded exhaustive schedule exploration (cooperative scheduler at real Mutex/RWMutex acquisitions) + separate free-running -race pass",
   text="No schedule of the twelve thread programs (A-J and L, F in two variants) on a real node core up to the preemption bound deadlocks, panics or exceeds the step horizon, and the registry, routing table and published gossip state agree at quiescence.",
   note="Scheduling points = lock acquisitions of manager, cluster.State, syncer, gossip state, failure detector; unsynchronised accesses are covered only by the separate free-running -race pass (sampling).", ref="3 C20, 2.2"),

 "C12": dict(level=MC, engine="E3-seq", technique="exhaustive enumeration of all arrival histories up to length window+k on the real detector against an exact rational reference",
   text="For every arrival history over the gap alphabet up to a length beyond the sample window, every window size and bootstrap interval in the grid, the real detector's suspicion level at five query offsets equals silence / mean(last W intervals) computed in exact rationals; zero at arrival, monotone in silence, above the threshold after 21 means of silence, never above it for steady peers.",
   note="Gaps {1,2,5,5000} units (thorough {1,2,5,50,1000}), windows 1-4(5), bootstrap {2,7}; first contact by report or by query; every delta shape counts as a heartbeat; a real gossip.New node suspects a silent peer; lifecycle grid: a returning node id is measured from its own arrivals only, the level of a flagged silent node only grows; real gossip instances on loopback hear a steady peer through read errors and full-size datagrams.", ref="3 C12"),
 "C13": dict(level="exploration", engine="E3-seq + E1-gmc", technique="exhaustive sweep of every max packet size per content; every datagram emitted in explored gossip worlds; every byte string up to length L and every 1-edit neighbour of real datagrams/streams fed to the real handlers",
   text="Every (content, max size) pair in the grid encodes within the limit to the maximal whole-entry prefix; every datagram emitted by real nodes in the explored worlds fits, decodes, is version-ordered and maximal; every hostile input in the enumerated set is applied or rejected without panic, hang or change to the node's own state; a stream peer that stalls at any point (also after a complete request, never reading the answer) is cut off at the stream timeout.",
   note="Exhaustive in the stated grid, not over all byte strings. Hostile inputs run in a worker process with an address-space limit and a watchdog. Finding D6 repaired by a fix: commit.", ref="3 C13"),
 "C19": dict(level="exploration", engine="E3-seq", technique="exhaustive grid of configurations x load distributions on the real Rebalance() with real yamux sessions, exact-arithmetic oracle",
   text="For every threshold, shed rate, minimum, local connection count and multiset of other nodes (status x connections) in the grid, one Rebalance() call closes no more than max(1, ceil(rate x avg)) sessions, never more than are open, and only when other nodes are known, the minimum is met and the excess over the whole-connection average reaches the threshold; configurations outside the valid range (negative threshold, shed rate outside [0,1]) are either refused by Validate or held to the same rules; local connections are registered through the real manager.",
   note="Dyadic parameters so float and rational arithmetic agree at boundaries. The 'only when enabled' clause (threshold 0 starts no rebalance task) is in server.go and is covered by the node-level check once built.", ref="3 C19"),
}

CHECKS.update({
 "C01": dict(level="exploration", engine="E4-sys", technique="exhaustive enumeration of placements x routing views x entry nodes x addressings on real proxy servers; Gray-code walk over every placement on a real gossiping cluster",
   text="On three real proxy servers with every placement of upstreams of two endpoints, five routing-view policies, every entry node and 21 addressings (incl. an endpoint differing only in case, and the endpoint header declared hop-by-hop by the client) no request is ever answered by an upstream of another endpoint; on a real 3-node cluster with real client listeners, after settling, every entry node serves the endpoint iff an upstream exists (else 502), for all 64 placements, also with requests in flight during each change; after a listener stops accepting with Close() (connection kept) requests entering at every node end up at the listener that is still there; a TLS cluster serves every entry x addressing; client.Dialer and the header route reach exactly the listener of endpoint ids that need URL escaping; access-log header filters change nothing; a node listed as unreachable or left with any listener count never shadows an active node that serves.",
   note="Schedules inside net/http, gorilla and yamux are free-running; lock-level interleavings of Select/AddConn/RemoveConn are enumerated by C15/C20. Finding D7 repaired by a fix: commit.", ref="3 C01, 2.4"),
 "C06": dict(level="fault_enumeration", engine="E4-sys", technique="exhaustive enumeration of all belief matrices x placements x entry x route x forwarded flag on real proxy servers, hop count from accepted connections; plus preemption-bounded exhaustive schedule exploration of Select against connect/disconnect (scheduler pass)",
   text="For all 2^6 per-node belief matrices, all 3^3 placements (none / healthy / go-away upstream per node), every entry node, HTTP and TCP routes, x-piko-forward sent by the client absent/true/false, with and without the client declaring that header hop-by-hop, and under 3 access-log configurations, each request sent twice (103680 cases; thorough also 2 and 4 nodes) a request crosses at most one inter-node hop, a local upstream is always used, an already forwarded request is never forwarded again, and the outcome is 200 from an upstream of the endpoint or 502.",
   note="Hops are counted as connections accepted by the proxies (no keep-alive on either side). Scheduler pass: programs A and F, every schedule up to 2 (3) preemptions: Select never returns the local node as forwarding target and never forwards an already-forwarded request. Finding D7 repaired by a fix: commit.", ref="3 C06, 2.2"),
 "C07": dict(level="exploration", engine="E3-seq + E4-sys", technique="exhaustive grid of message compositions x empty messages x read-buffer patterns x transport fragmentation on the real WebSocket adapter; enumerated tunnel paths x sizes x closer on real nodes",
   text="Every composition of an n-byte payload into WebSocket messages with up to two empty messages, 8 read-buffer patterns and 4 transport read limits is delivered exactly once and in order by the real adapter (never a (0,nil) read, close frame => error); 5 real tunnel paths x 4 sizes x empty write x closer deliver bytes intact and propagate close, releasing the upstream stream; the same paths on a TLS cluster; one long-lived tunnel per path (plaintext and TLS cluster) used for 6.5s never sees an end-of-stream neither side caused; single writes of 300KiB; a send-only local service behind the agent TCP proxy / client forwarder is released when the client closes; handshakes whose Connection header is a token list outlive proxy.timeout; a listener application that drains slowly after the dialer closed still gets every byte.",
   note="Adapter half is deterministic and exhaustive in its grid; tunnel half is free-running.", ref="3 C07"),
 "C08": dict(level="exploration", engine="E4-sys", technique="enumerated request/response grid (pairwise-complete quick, full cross product thorough) on a real 2-node cluster; enumerated gateway failure matrix",
   text="Across method x escaped path x query x header set x body size x response shape x {local, forwarded, agent HTTP server} (9 methods incl. PROPFIND/PURGE) the upstream sees exactly the client's method, request-target, Host, headers and body and the client sees exactly the upstream's status, headers, body and trailer; undeterminable endpoint => 400, no/refusing/early-closing upstream => 502, slow upstream or silent node => 504, a connected upstream whose connection stalled and recovered is reached again, with proxy authentication enabled the client's own Authorization header reaches the upstream (local and forwarded), forwarding works on a TLS cluster, access-log header filters change nothing, an upstream connection cut in the middle of a chunked body is not presented as a complete response, a disconnecting upstream never leaves the balancer answering 5xx, WebSocket upgrades (any spelling) outlive the timeout; same failure matrix for the agent reverse proxy.",
   note="Hop-by-hop headers (Connection, X-Forwarded-For, x-piko-forward, Accept-Encoding, User-Agent, Content-Length/Transfer-Encoding) are allowed to differ. Findings D3 and D8 repaired by fix: commits.", ref="3 C08"),
 "C09": dict(level="exploration", engine="E4-sys", technique="exhaustive cross product of key configurations x token defects x presentations x every route registered on the live gin engines of a real server",
   text="For each key configuration (HMAC, RSA, ECDSA, JWKS, combinations, with/without audience and issuer) a real server with that auth on all three ports refuses (401, sentinel upstream untouched) every token in the cross product of algorithm x signing key x tampering x exp x nbf x aud x iss x header presentation that an independent oracle says must be refused, on every registered route of every port (incl. ?forward=<node> on the admin port); with independent per-port keys each port honours its own key only; a client-set x-piko-forward marker buys nothing; a token accepted while fresh is refused when presented again after its expiry.",
   note="Routes come from gin's Routes() of the running servers; trailing-slash redirects are outside the alphabet.", ref="3 C09"),
 "C10": dict(level="exploration", engine="E4-sys", technique="exhaustive grid of endpoint-claim sets x target namings x ports and tenant tables x signing keys x tenant headers on a real server",
   text="7 endpoint-claim sets x 13 ways of naming the target x 2 token headers (and with a client-set x-piko-forward marker) on the proxy port and x 5 endpoints on the listen port: a request is served iff the endpoint that actually serves it is permitted, and it is the endpoint named by the precedence rule; 3 tenant tables x default key on/off x 3 signers x 4 tenant headers: accepted iff the named tenant exists and its key signed the token (default key only without tenants), also for tables mixing HMAC, RSA and ECDSA keys and when a token is replayed under another header after it was accepted; blank or padded ids in the claim name no endpoint; a refused request reaches no upstream whatever status the client sees; the empty HMAC key opens nothing.",
   note="", ref="3 C10"),
 "C16": dict(level="fault_enumeration", engine="E4-sys", technique="enumeration of every assignment and order of connection endings (6 kinds) over 2-3 upstream connections on a real server, with/without a request in flight; enumerated client-listener stop x outage-window cases behind a gate; every connect order of mixed token lifetimes",
   text="After every ending (client close, go-away then close, go-away + proxied request then close, abrupt TCP close, server-side shed, token expiry, server shutdown) in every order, registry == routing table == published gossip entries == still-connected set and the open-session count matches; expiring tokens are closed at, not before, expiry unless disconnect-on-expiry is disabled; a client listener stopped while connected, while reconnecting or after a reconnect leaves nothing registered; tokens without exp are not closed when other tokens expire; a connection whose network goes dark without FIN/RST is noticed and deregistered; disable-disconnect-on-expiry is honoured with JWKS keys too; a shutdown whose graceful part cannot finish still ends the upstream connections.",
   note="Liveness waits poll up to 15s and a miss is re-run twice before it is reported; quick tier thins the expiry combinations.", ref="3 C16"),
 "C18": dict(level="fault_enumeration", engine="E4-sys", technique="enumeration of lost node x phase x SIGTERM/SIGKILL x {orderly close, TCP reset} on a 3-node cluster whose lost node is a real piko server process built from the current tree; exhaustive enumeration of unreachable-peer subsets for the real Gossip.Leave on 3-5 in-memory nodes (attempt order inside Leave sampled 8x, stated)",
   text="For the lost node being the join seed or a later joiner, at each phase (idle, upstreams connected, requests in flight, second signal mid-shutdown), by SIGTERM or SIGKILL: the process exits within the grace period, survivors stop listing it as active (left after a graceful stop), no request is answered by a wrong endpoint, listeners (opened as the agent opens them, with upstream authentication) reconnect through the load balancer and every survivor serves every endpoint again; a node that left no longer advertises; connection loss seen as orderly close or as TCP reset; the real Gossip.Leave announces the departure for every subset of just-died peers (order of attempts sampled 8x); no endpoint is left advertised by a node that shut down with 60 upstream connections; rebalancing enabled and a lagging balancer change nothing.",
   note="Kill points are phase boundaries. Findings D4 and D9 repaired by fix: commits.", ref="3 C18"),
})

PENDING = {}

# later additions to the notes / techniques (kept apart from the table above)
NOTE_APPEND = {
 "C04": " Scheduler pass: programs L (discovery from a digest against the first relayed delta), G, H; every schedule up to 2 (3) preemptions, routing table mirrors the gossip view at quiescence.",
 "C05": " Bulk cases: 10-400 endpoints on one node told to peers in complete exchanges, before and after half of the upstreams disconnect.",
 "C08": " Access-log configurations (log enabled with allow / block lists) x response shapes incl. trailers; every sequence of three placements of an endpoint's upstreams over two nodes. Findings D10 and D14 (empty 404 replaced by gin) repaired by fix: commits. Default-configuration case: finding F5 (write timeout shorter than the proxy timeout) reproduced as KNOWN-FINDING.",
 "C11": " Own-identity exploration: what peers remember of a previous incarnation of the local id never changes the restarted node.",
 "C13": " Two-message sequences (every ordered pair of corpus messages with a node id replaced by invalid UTF-8). Nested-stream cases, one worker process each: finding F4 (unbounded recursion when skipping an unknown value) reproduced as KNOWN-FINDING.",
 "C16": " Client listener stopped in the middle of a slow reconnect handshake (finding D11 repaired by a fix: commit); tenant upstreams in the mixed-token-lifetime cases.",
 "C07": " Tunnel cases include the upstream end speaking first (greeting on accept) on all five paths.",
 "C09": " Remote JWKS endpoint rotated {A} -> {A,B} -> {B} -> {A} while the node runs (cache TTL 300ms, timeout unset / 5s): tokens of a key no longer published are refused on all three ports.",
 "C15": " Every checked selection is followed on the same instance by a selection of each endpoint without local upstreams (selection must not depend on earlier selections; such memory is invisible to the canonical state).",
 "C18": " Two listeners of one endpoint on the lost node; a gracefully stopped node must end up listed without endpoints.",
 "C19": " Not-a-number threshold / shed rate are part of the grid (finding D12 repaired by a fix: commit); the largest unsigned minimum is part of the grid (finding D13 repaired by a fix: commit).",
}
TECH_APPEND = {
 "C04": "; plus preemption-bounded exhaustive schedule exploration of digest discovery against relayed deltas (scheduler pass)",
}

def main():
    for k, v in NOTE_APPEND.items():
        CHECKS[k]["note"] += v
    for k, v in TECH_APPEND.items():
        CHECKS[k]["technique"] += v
    checks = []
    for pid in sorted(CHECKS):
        c = CHECKS[pid]
        checks.append({
            "property_id": pid,
            "quick_cmd": "./check %s quick" % pid,
            "thorough_cmd": "./check %s thorough" % pid,
            "evidence_file": "/verif/evidence/%s.json" % pid,
            "replay_cmd_template": "./check replay quick {path}",
            "engine": c["engine"],
            "level_claimed": {"category": c["level"], "text": c["text"], "design_ref": "DESIGN.md section " + c["ref"]},
            "level_note": c["note"],
            "technique": c["technique"],
        })
    na = [{"property_id": p, "reason": r} for p, r in sorted(PENDING.items()) if p not in CHECKS]
    m = {
        "version": 1,
        "setup_cmd": "./setup.sh",
        "hooks": {
            "guard": "verif",
            "enable": "go build -tags verif -overlay <generated by tools/mkoverlay.py>: export shims (//go:build verif) and import-rewritten copies (sync->vsync, net->vnet) are injected from /verif/shims at build time; /repo carries no hook commits",
            "baseline_off_cmd": "cd /repo && GOFLAGS=-mod=mod go test -json -vet=off -count=1 -timeout 25m ./...",
            "source_commits": [],
            "add_only": True,
        },
        "engines": [
            {"name": "E1-gmc", "path": "harness/internal/gw + harness/internal/mc", "serves_properties": ["C02", "C03", "C04", "C11", "C13", "C14", "C18"], "kind_free_text": "explicit-state model checker whose transition function is the real gossip code (replay-based successors, canonical-state dedup)"},
            {"name": "E2-sched", "path": "shims/verifshim/vsync + harness/internal/sched", "serves_properties": ["C04", "C05", "C06", "C11", "C14", "C15", "C17", "C20"], "kind_free_text": "cooperative scheduler + iterative preemption-bounded DFS over real lock acquisitions"},
            {"name": "E3-seq", "path": "harness/cmd/vcheck/seq_*.go", "serves_properties": ["C05", "C07", "C11", "C12", "C13", "C15", "C17", "C19"], "kind_free_text": "exhaustive operation-sequence / input-grid enumeration against reference models"},
            {"name": "E4-sys", "path": "harness/internal/e4 + harness/cmd/vcheck/sys_*.go", "serves_properties": ["C01", "C03", "C06", "C07", "C08", "C09", "C10", "C12", "C16", "C18", "C19", "C20"], "kind_free_text": "enumerated configurations / fault points on real piko nodes (component clusters, in-process servers, a subprocess server for kill) on loopback"},
        ],
        "checks": checks,
        "not_applicable": na,
        "notes": "fix: commits in /repo repair findings D1 (C05), D2 (C17), D3 (C08), D4 (C18), D6 (C13), D7 (C06, C01), D8 (C08), D9 (C18), D10 (C08), D11 (C16), D12 (C19), D13 (C19), D14 (C08); known_findings.json lists recorded findings F1-F5 and the fixed entries.",
    }
    json.dump(m, open(os.path.join(ROOT, "MANIFEST.json"), "w"), indent=1)
    print("wrote MANIFEST.json with %d checks, %d not claimed" % (len(checks), len(na)))

if __name__ == "__main__":
    main()
