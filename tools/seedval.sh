#!/bin/bash
# usage: tools/seedval.sh <src-dir-with-seed_out> <k> <pkgdir> <go test args...>
# Confirms, in a scratch worktree of /repo (never /repo itself): the patch applies and compiles,
# the existing suite passes with it, the demonstration fails with it and passes without it.
set -u
export GOFLAGS=-mod=mod GOPROXY=off
SRC=$1; K=$2; PKG=$3; shift 3
W=$(mktemp -d /tmp/seedval.XXXXXX); rmdir "$W"
git -C /repo worktree add -q --detach "$W" HEAD || exit 2
trap 'git -C /repo worktree remove --force "$W" >/dev/null 2>&1' EXIT
cd "$W"
git apply "$SRC/seed_out/mutant_$K.diff" || { echo "RESULT patch-does-not-apply"; exit 1; }
go build ./... || { echo "RESULT does-not-compile"; exit 1; }
if go test -vet=off -count=1 ./... 2>&1 | grep -E "^(FAIL|--- FAIL|panic)" | head -5 | grep -q .; then echo "RESULT suite-fails-with-patch"; go test -vet=off -count=1 ./... 2>&1 | grep -E "^(FAIL|--- FAIL)" | head; exit 1; fi
echo "suite: pass with patch"
cp "$SRC/seed_out/demo_${K}_test.go" "$PKG/zz_seed_demo_test.go"
( cd "$PKG" && timeout 300 go test -vet=off -count=1 "$@" . ) > /tmp/seedval.with.log 2>&1; RCW=$?
git checkout -q -- . 
( cd "$PKG" && timeout 300 go test -vet=off -count=1 "$@" . ) > /tmp/seedval.without.log 2>&1; RCO=$?
echo "demo with patch: rc=$RCW ; without: rc=$RCO"
if [ $RCW -ne 0 ] && [ $RCO -eq 0 ]; then echo "RESULT confirmed"; exit 0; fi
tail -5 /tmp/seedval.with.log; tail -5 /tmp/seedval.without.log
echo "RESULT demo-not-discriminating"; exit 1
