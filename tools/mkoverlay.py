#!/usr/bin/env python3
"""Generate a `go build -overlay` file that injects the /verif shims into /repo.

usage: mkoverlay.py <scratch-dir> <mode> [--patch-dir DIR]
  mode = std    real sync; pkg/gossip/gossip.go has "net" -> verifshim/vnet
  mode = sched  as std plus "sync" -> verifshim/vsync in the shared-state core

Rewritten copies are regenerated from /repo's *current working tree* on every
call; the only textual change is the import line, so line numbers and all other
content of the repository file are preserved verbatim.
"""
import json, os, re, sys

REPO = os.environ.get("VERIF_REPO", "/repo")
SHIMS = os.path.join(os.path.dirname(os.path.abspath(__file__)), "..", "shims")
MOD = "github.com/andydunstall/piko"

NET_FILES = ["pkg/gossip/gossip.go"]
SYNC_FILES = [
    "server/upstream/manager.go",
    "server/cluster/state.go",
    "server/gossip/syncer.go",
    "pkg/gossip/state.go",
    "pkg/gossip/failuredetector.go",
]


def rewrite_import(src, pkg, repl):
    # inside an import block:   "net"   ->   net "<mod>/verifshim/vnet"
    pat = re.compile(r'^(\s*)"%s"\s*$' % re.escape(pkg), re.M)
    out, n = pat.subn(lambda m: '%s%s "%s/verifshim/%s"' % (m.group(1), pkg, MOD, repl), src)
    if n == 0:
        # single-line form: import "net"
        pat = re.compile(r'^import\s+"%s"\s*$' % re.escape(pkg), re.M)
        out, n = pat.subn('import %s "%s/verifshim/%s"' % (pkg, MOD, repl), src)
    return out, n


def main():
    scratch, mode = sys.argv[1], sys.argv[2]
    os.makedirs(scratch, exist_ok=True)
    replace = {}
    # 1. shim files (export shims + virtual packages)
    shims = os.path.normpath(SHIMS)
    for root, _, files in os.walk(shims):
        for f in files:
            if not f.endswith(".go"):
                continue
            rel = os.path.relpath(os.path.join(root, f), shims)
            if mode != "sched" and f.endswith("_sched.go"):
                continue
            replace[os.path.join(REPO, rel)] = os.path.join(root, f)
    # 2. import-rewritten copies of repository files
    todo = {}
    for f in NET_FILES:
        todo.setdefault(f, []).append(("net", "vnet"))
    if mode == "sched":
        for f in SYNC_FILES:
            todo.setdefault(f, []).append(("sync", "vsync"))
    for f, rws in todo.items():
        path = os.path.join(REPO, f)
        src = open(path).read()
        for pkg, repl in rws:
            src, n = rewrite_import(src, pkg, repl)
            if n != 1:
                # file does not import the package (any more): nothing to rewrite
                if n == 0:
                    continue
                print("HARNESS-ERROR mkoverlay: %s imports %s %d times" % (f, pkg, n), file=sys.stderr)
                sys.exit(2)
        dst = os.path.join(scratch, "rw_" + f.replace("/", "__"))
        open(dst, "w").write(src)
        replace[path] = dst
    out = os.path.join(scratch, "overlay.json")
    json.dump({"Replace": replace}, open(out, "w"), indent=1)
    print(out)


if __name__ == "__main__":
    main()
