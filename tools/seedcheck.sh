#!/bin/bash
# usage: tools/seedcheck.sh <patch> <check> [<check>...]
# Applies a seeded change to /repo, runs the given quick checks, restores /repo.
set -u
P=$1; shift
cd /verif
git -C /repo diff --quiet || { echo "/repo is dirty"; exit 2; }
git -C /repo apply "$P" || { echo "patch does not apply"; exit 2; }
trap 'git -C /repo checkout -- . ' EXIT
for c in "$@"; do
  out=$(timeout 1500 ./check $c quick 2>&1); rc=$?
  echo "== $c rc=$rc $(echo "$out" | grep -c '^VIOLATION') violations; $(echo "$out" | grep -m1 -B1 '^VIOLATION' | head -1 | cut -c1-300)"
  echo "$out" | grep -m1 "HARNESS-ERROR" | cut -c1-300
done
