#!/bin/bash
# Re-applies every kept property-breaking change under /verif/seeded to /repo
# (one at a time, always restored), runs the quick check of the property it
# breaks and records whether a VIOLATION was reported. Then checks that the
# unchanged tree is silent.  usage: tools/selftest.sh [id ...]
set -u
cd /verif
git -C /repo diff --quiet || { echo "/repo is dirty"; exit 2; }
ids=${@:-$(ls seeded | grep -E '^C[0-9]+-[0-9]+$')}
out=seeded/selftest.results
: > $out.tmp
for id in $ids; do
  prop=${id%-*}
  git -C /repo apply /verif/seeded/$id/patch.diff || { echo "$id patch-does-not-apply" | tee -a $out.tmp; continue; }
  res=$(timeout 1800 ./check $prop quick 2>&1); rc=$?
  git -C /repo checkout -- .
  nv=$(echo "$res" | grep -c '^VIOLATION')
  sig=$(echo "$res" | grep -m1 -E '^  C[0-9]+ \[' | sed -E 's/^ *C[0-9]+ \[([^]]*)\].*/\1/' | cut -c1-80)
  echo "$id check=$prop rc=$rc violations=$nv sig=$sig" | tee -a $out.tmp
done
# merge: lines of this run replace earlier lines of the same id
touch $out
python3 - $out $out.tmp <<'PY'
import sys
old={l.split()[0]:l for l in open(sys.argv[1]) if l.strip()}
new={l.split()[0]:l for l in open(sys.argv[2]) if l.strip()}
old.update(new)
open(sys.argv[1],'w').write(''.join(old[k] for k in sorted(old)))
PY
rm -f $out.tmp
