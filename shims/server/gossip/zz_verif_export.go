//go:build verif

package gossip

// Export shim injected by /verif (go build -overlay): constructor and a
// read-only dump of the syncer's pending nodes. No logic of its own.

import (
	"sort"

	"github.com/andydunstall/piko/pkg/log"
	"github.com/andydunstall/piko/server/cluster"
)

type VSyncer = syncer

// VGossiper mirrors the unexported gossiper interface.
type VGossiper interface {
	UpsertLocal(key, value string)
	DeleteLocal(key string)
}

func VNewSyncer(cs *cluster.State) *VSyncer { return newSyncer(cs, log.NewNopLogger()) }

func (s *syncer) VSync(g VGossiper) { s.Sync(g) }

// VPending returns copies of the pending nodes sorted by id.
func (s *syncer) VPending() []*cluster.Node {
	s.mu.Lock()
	defer s.mu.Unlock()
	var out []*cluster.Node
	for _, n := range s.pendingNodes {
		out = append(out, n.Copy())
	}
	sort.Slice(out, func(i, j int) bool { return out[i].ID < out[j].ID })
	return out
}
