//go:build verif

package proxy

import "github.com/gin-gonic/gin"

func (s *Server) VRoutes() []gin.RouteInfo {
	return s.httpServer.Handler.(*gin.Engine).Routes()
}
