//go:build verif

package server

// Export shim injected by /verif: the registered routes of the three HTTP
// ports of a node, read from the live gin engines. No logic.

import (
	"github.com/gin-gonic/gin"

	"github.com/andydunstall/piko/server/upstream"
)

func (s *Server) VRoutes() map[string][]gin.RouteInfo {
	return map[string][]gin.RouteInfo{
		"proxy":    s.proxyServer.VRoutes(),
		"upstream": s.upstreamServer.VRoutes(),
		"admin":    s.adminServer.VRoutes(),
	}
}

func (s *Server) VUpstreamServer() *upstream.Server { return s.upstreamServer }
