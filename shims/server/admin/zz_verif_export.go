//go:build verif

package admin

import "github.com/gin-gonic/gin"

func (s *Server) VRoutes() []gin.RouteInfo { return s.router.Routes() }
