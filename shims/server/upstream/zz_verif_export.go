//go:build verif

package upstream

// Export shim injected by /verif (go build -overlay): read-only view of the
// load balancers and session bookkeeping of the upstream server. No logic.

import (
	"sort"

	"github.com/andydunstall/yamux"
	"github.com/gin-gonic/gin"
)

func (s *Server) VRoutes() []gin.RouteInfo {
	return s.httpServer.Handler.(*gin.Engine).Routes()
}

// VBalancer is a copy of one endpoint's round-robin state.
type VBalancer struct {
	Endpoint  string
	Upstreams []Upstream
	NextIndex int
}

func (m *LoadBalancedManager) VBalancers() []VBalancer {
	m.mu.Lock()
	defer m.mu.Unlock()
	var out []VBalancer
	for id, lb := range m.localUpstreams {
		out = append(out, VBalancer{Endpoint: id, Upstreams: append([]Upstream(nil), lb.upstreams...), NextIndex: lb.nextIndex})
	}
	sort.Slice(out, func(i, j int) bool { return out[i].Endpoint < out[j].Endpoint })
	return out
}

func (s *Server) VOpenSessions() int            { return int(s.openSessions()) }
func (s *Server) VAddSession(sess *yamux.Session) { s.addSession(sess) }
func (s *Server) VRemoveSession(sess *yamux.Session) { s.removeSession(sess) }

// VShed closes up to n sessions exactly as Rebalance does.
func (s *Server) VShed(n int) { s.shedSessions(n) }

// VNodeID is the node a forwarding upstream points at.
func (u *NodeUpstream) VNodeID() string { return u.node.ID }
