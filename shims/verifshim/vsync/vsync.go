// Package vsync stands in for "sync" in the shared-state core of piko when it
// is built by the /verif scheduler harness (build mode "sched"). Mutex and
// RWMutex hand control to a cooperative scheduler before every acquisition;
// everything else is the real sync package.
//
// Outside a controlled execution (Active() == false) the types behave like
// ordinary mutexes, so set-up code and free-running tests work unchanged.
package vsync

import (
	"fmt"
	"sync"
)

type (
	WaitGroup = sync.WaitGroup
	Once      = sync.Once
	Pool      = sync.Pool
	Map       = sync.Map
	Locker    = sync.Locker
	Cond      = sync.Cond
)

func NewCond(l Locker) *Cond { return sync.NewCond(l) }

// ---------------------------------------------------------------------------
// scheduler

type opKind int

const (
	opStart opKind = iota
	opLock
	opRLock
	opWLockAnnounced // writer announced itself, waits for readers to drain
	opDone
	opYield
)

type lockState struct {
	writer        bool
	readers       int
	writerWaiting int // announced writers (Go: they block new readers)
	name          string
	rw            bool
}

type thread struct {
	id   int
	wake chan struct{}
	op   opKind
	lk   *lockState
	done bool
	pan  any
}

// Point describes one scheduling decision of an execution.
type Point struct {
	Enabled []int // thread ids in canonical order: running thread first
	Chosen  int   // index into Enabled
	Running int   // thread that was running before the point (-1 at start)
	// RunningEnabled: the previously running thread could have continued, so
	// choosing another thread is a preemption.
	RunningEnabled bool
	Desc           string
}

// Outcome of one controlled execution.
type Outcome struct {
	Points   []Point
	Deadlock bool
	Blocked  []string // description of blocked threads at deadlock
	Panics   []string
	Steps    int
	Horizon  bool // step horizon exceeded
}

type sched struct {
	threads []*thread
	cur     int
	yield   chan int
	steps   int
}

var (
	mu     sync.Mutex // serialises controlled executions
	active *sched
)

// Active reports whether a controlled execution is in progress.
func Active() bool { return active != nil }

func (s *sched) point(op opKind, lk *lockState) {
	t := s.threads[s.cur]
	t.op, t.lk = op, lk
	s.yield <- t.id
	<-t.wake
}

func enabled(t *thread) bool {
	if t.done {
		return false
	}
	switch t.op {
	case opStart, opYield:
		return true
	case opLock:
		if t.lk.rw {
			// an un-announced RWMutex.Lock can always take its first step:
			// it either acquires or announces itself (blocking new readers)
			return true
		}
		return !t.lk.writer
	case opWLockAnnounced:
		return !t.lk.writer && t.lk.readers == 0
	case opRLock:
		return !t.lk.writer && t.lk.writerWaiting == 0
	}
	return false
}

func opName(t *thread) string {
	n := ""
	if t.lk != nil {
		n = t.lk.name
	}
	switch t.op {
	case opStart:
		return "start"
	case opLock:
		return "Lock(" + n + ")"
	case opRLock:
		return "RLock(" + n + ")"
	case opWLockAnnounced:
		return "Lock-wait(" + n + ")"
	case opYield:
		return "yield"
	}
	return "done"
}

// Run executes the thread bodies under the scheduler. choose is called at
// every point with the canonical enabled list and returns the index to run.
func Run(bodies []func(), maxSteps int, choose func(p *Point) int) *Outcome {
	mu.Lock()
	defer mu.Unlock()
	s := &sched{yield: make(chan int), cur: -1}
	out := &Outcome{}
	for i, b := range bodies {
		t := &thread{id: i, wake: make(chan struct{}), op: opStart}
		s.threads = append(s.threads, t)
		go func(t *thread, b func()) {
			<-t.wake
			defer func() {
				if r := recover(); r != nil {
					t.pan = r
				}
				t.done = true
				t.op = opDone
				s.yield <- t.id
			}()
			b()
		}(t, b)
	}
	active = s
	defer func() { active = nil }()
	running := -1
	for {
		var en []int
		runEn := false
		if running >= 0 && enabled(s.threads[running]) {
			en = append(en, running)
			runEn = true
		}
		for _, t := range s.threads {
			if t.id != running && enabled(t) {
				en = append(en, t.id)
			}
		}
		if len(en) == 0 {
			for _, t := range s.threads {
				if !t.done {
					out.Deadlock = true
					out.Blocked = append(out.Blocked, fmt.Sprintf("T%d blocked in %s", t.id, opName(t)))
				}
			}
			break
		}
		if s.steps >= maxSteps {
			out.Horizon = true
			break
		}
		p := Point{Enabled: en, Running: running, RunningEnabled: runEn}
		p.Chosen = choose(&p)
		if p.Chosen < 0 || p.Chosen >= len(en) {
			panic(fmt.Sprintf("vsync: choice %d out of range (%d enabled) at point %d", p.Chosen, len(en), len(out.Points)))
		}
		t := s.threads[en[p.Chosen]]
		p.Desc = fmt.Sprintf("T%d:%s", t.id, opName(t))
		out.Points = append(out.Points, p)
		s.steps++
		// perform the pending operation on behalf of the thread
		resume := true
		switch t.op {
		case opLock:
			if !t.lk.writer && t.lk.readers == 0 {
				t.lk.writer = true
			} else {
				// announce and wait: does not resume the thread
				t.lk.writerWaiting++
				t.op = opWLockAnnounced
				resume = false
			}
		case opWLockAnnounced:
			t.lk.writerWaiting--
			t.lk.writer = true
		case opRLock:
			t.lk.readers++
		}
		if !resume {
			// the thread stays parked; the previously running thread keeps
			// its "running" status only if it was the one that announced
			running = t.id
			continue
		}
		s.cur = t.id
		running = t.id
		t.wake <- struct{}{}
		<-s.yield
	}
	out.Steps = s.steps
	for _, t := range s.threads {
		if t.pan != nil {
			out.Panics = append(out.Panics, fmt.Sprintf("T%d: %v", t.id, t.pan))
		}
	}
	// Threads still parked (deadlock / horizon) are leaked deliberately: they
	// hold no real resources and each execution builds fresh objects.
	return out
}

// Yield is an explicit scheduling point for harness code.
func Yield() {
	if s := active; s != nil {
		s.point(opYield, nil)
	}
}

// ---------------------------------------------------------------------------
// Mutex / RWMutex

type Mutex struct {
	real sync.Mutex
	st   lockState
}

func (m *Mutex) SetName(n string) { m.st.name = n }

func (m *Mutex) Lock() {
	if s := active; s != nil {
		s.point(opLock, &m.st)
		return
	}
	m.real.Lock()
}

func (m *Mutex) Unlock() {
	if active != nil {
		if !m.st.writer {
			panic("vsync: unlock of unlocked mutex")
		}
		m.st.writer = false
		return
	}
	m.real.Unlock()
}

func (m *Mutex) TryLock() bool {
	if active != nil {
		if m.st.writer {
			return false
		}
		m.st.writer = true
		return true
	}
	return m.real.TryLock()
}

type RWMutex struct {
	real sync.RWMutex
	st   lockState
}

func (m *RWMutex) SetName(n string) { m.st.name = n }

func (m *RWMutex) Lock() {
	if s := active; s != nil {
		m.st.rw = true
		s.point(opLock, &m.st)
		return
	}
	m.real.Lock()
}

func (m *RWMutex) Unlock() {
	if active != nil {
		if !m.st.writer {
			panic("vsync: unlock of unlocked rwmutex")
		}
		m.st.writer = false
		return
	}
	m.real.Unlock()
}

func (m *RWMutex) RLock() {
	if s := active; s != nil {
		s.point(opRLock, &m.st)
		return
	}
	m.real.RLock()
}

func (m *RWMutex) RUnlock() {
	if active != nil {
		if m.st.readers <= 0 {
			panic("vsync: runlock of unlocked rwmutex")
		}
		m.st.readers--
		return
	}
	m.real.RUnlock()
}

func (m *RWMutex) RLocker() Locker { return (*rlocker)(m) }

type rlocker RWMutex

func (r *rlocker) Lock()   { (*RWMutex)(r).RLock() }
func (r *rlocker) Unlock() { (*RWMutex)(r).RUnlock() }
