// Package vnet stands in for "net" in pkg/gossip/gossip.go when piko is built
// by the /verif harness. Everything is an alias of / forwards to the real net
// package except Dialer, whose Dial can be redirected to an in-memory
// connection by the harness (Hook). With Hook nil it behaves like net.Dialer.
package vnet

import (
	"net"
	"time"
)

type (
	Conn       = net.Conn
	PacketConn = net.PacketConn
	Listener   = net.Listener
	Addr       = net.Addr
	UDPAddr    = net.UDPAddr
	TCPAddr    = net.TCPAddr
	IP         = net.IP
)

var ErrClosed = net.ErrClosed

type DialFunc func(network, addr string) (net.Conn, error)

type Dialer struct {
	Timeout time.Duration
	Hook    DialFunc
}

func (d *Dialer) Dial(network, addr string) (net.Conn, error) {
	if d.Hook != nil {
		return d.Hook(network, addr)
	}
	nd := &net.Dialer{Timeout: d.Timeout}
	return nd.Dial(network, addr)
}

func ResolveUDPAddr(network, address string) (*net.UDPAddr, error) {
	return net.ResolveUDPAddr(network, address)
}
func SplitHostPort(hostport string) (string, string, error) { return net.SplitHostPort(hostport) }
func ParseIP(s string) net.IP                                { return net.ParseIP(s) }
func LookupIP(host string) ([]net.IP, error)                 { return net.LookupIP(host) }
func JoinHostPort(host, port string) string                  { return net.JoinHostPort(host, port) }
