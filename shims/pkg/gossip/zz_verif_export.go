//go:build verif

package gossip

// Export shim injected by /verif (go build -overlay). It only exposes
// unexported constructors, types and codec functions; it contains no logic
// of its own.

import (
	"time"

	"go.uber.org/atomic"

	"github.com/andydunstall/piko/pkg/log"
	vnet "github.com/andydunstall/piko/verifshim/vnet"
)

type (
	VClusterState   = clusterState
	VPacketListener = packetListener
	VStreamListener = streamListener
	VDigest         = digest
	VDigestEntry    = digestEntry
	VDelta          = delta
	VDeltaEntry     = deltaEntry
	VDigestHeader   = digestHeader
	VDeltaHeader    = deltaHeader
	VAccrualFD      = accrualFailureDetector
)

const (
	VLeftKey            = leftKey
	VCompactKey         = compactKey
	VSuspicionThreshold = suspicionThreshold
	VCompactThreshold   = compactThreshold
	VNodeExpiry         = nodeExpiry
	VMsgDigest          = uint8(messageTypeDigest)
	VMsgDelta           = uint8(messageTypeDelta)
	VMsgJoin            = uint8(messageTypeJoin)
	VMsgLeave           = uint8(messageTypeLeave)
)

// VFailureDetector mirrors the unexported failureDetector interface.
type VFailureDetector interface {
	Report(nodeID string)
	SuspicionLevel(nodeID string) float64
	Remove(nodeID string)
}

func VNewMetrics() *Metrics { return newMetrics() }

func VNewClusterState(id, addr string, fd VFailureDetector, m *Metrics, w Watcher) *VClusterState {
	return newClusterState(id, addr, fd, m, w)
}

func VNewPacketListener(ln vnet.PacketConn, s *VClusterState, fd VFailureDetector, maxPacketSize int, m *Metrics) *VPacketListener {
	return newPacketListener(ln, s, fd, maxPacketSize, m, log.NewNopLogger())
}

func VNewStreamListener(ln vnet.Listener, s *VClusterState, m *Metrics) *VStreamListener {
	return newStreamListener(ln, s, streamTimeout, m, log.NewNopLogger())
}

func (l *VPacketListener) VHandlePacket(b []byte) error { return l.handlePacket(b) }
// VNewStreamListenerTimeout is VNewStreamListener with an explicit stream timeout.
func VNewStreamListenerTimeout(ln vnet.Listener, s *VClusterState, m *Metrics, d time.Duration) *VStreamListener {
	return newStreamListener(ln, s, d, m, log.NewNopLogger())
}

func (l *VStreamListener) VHandleConn(c vnet.Conn) error { return l.handleConn(c) }

// VNewGossip assembles a Gossip value exactly as New does but without
// starting the listener goroutines or the periodic tasks.
func VNewGossip(cfg *Config, s *VClusterState, sl *VStreamListener, pl *VPacketListener, pc vnet.PacketConn, dial vnet.DialFunc, m *Metrics) *Gossip {
	return &Gossip{
		state:          s,
		config:         cfg,
		streamListener: sl,
		packetListener: pl,
		dialer: &vnet.Dialer{
			Timeout: streamTimeout,
			Hook:    dial,
		},
		packetConn: pc,
		metrics:    m,
		logger:     log.NewNopLogger(),
		closed:     atomic.NewBool(false),
		shutdownCh: make(chan struct{}),
	}
}

func (g *Gossip) VState() *VClusterState                { return g.state }
func (g *Gossip) VGossip(n NodeMetadata) error          { return g.gossip(n) }
func (g *Gossip) VGossipRound() error                   { return g.gossipRound() }
func (g *Gossip) VJoin(addr string) (string, error)     { return g.join(addr) }
func (g *Gossip) VLeaveOne(addr string) error           { return g.leave(addr) }

func VEncodeDigest(h VDigestHeader, d VDigest, max int) ([]byte, error) { return encodeDigest(h, d, max) }
func VEncodeDelta(h VDeltaHeader, d VDelta, max int) ([]byte, error)    { return encodeDelta(h, d, max) }
func VDecodeDigest(b []byte) (VDigestHeader, VDigest, error)            { return decodeDigest(b) }
func VDecodeDelta(b []byte) (VDeltaHeader, VDelta, error)               { return decodeDelta(b) }

func VNewAccrualFD(bootstrap time.Duration, sampleSize int) *VAccrualFD {
	return newAccrualFailureDetector(bootstrap, sampleSize)
}
