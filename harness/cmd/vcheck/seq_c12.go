package main

import (
	"fmt"
	"math"
	"math/big"
	"sort"
	"sync"
	"time"

	"github.com/andydunstall/piko/pkg/gossip"
	"verifharness/internal/evid"
)

// C12: the real accrual failure detector against an exact rational
// reference, for every arrival sequence over a gap alphabet up to a length
// beyond the sample window.

const fdUnit = time.Millisecond

type fdRef struct {
	w         int
	bootstrap int64
	intervals []int64 // all intervals ever added (first = bootstrap)
	last      int64   // last arrival (units)
	seen      bool
}

func (r *fdRef) arrive(t int64) {
	if r.seen {
		r.intervals = append(r.intervals, t-r.last)
	} else {
		r.intervals = append(r.intervals, r.bootstrap)
	}
	r.last = t
	r.seen = true
}

func (r *fdRef) mean() *big.Rat {
	iv := r.intervals
	if len(iv) > r.w {
		iv = iv[len(iv)-r.w:]
	}
	var sum int64
	for _, x := range iv {
		sum += x
	}
	return big.NewRat(sum, int64(len(iv)))
}

func (r *fdRef) phi(t int64) *big.Rat {
	return new(big.Rat).Quo(big.NewRat(t-r.last, 1), r.mean())
}

func closeEnough(got float64, want *big.Rat) bool {
	w, _ := want.Float64()
	if w == 0 {
		return got == 0
	}
	return math.Abs(got-w) <= 1e-9*math.Abs(w)
}

type fdCase struct {
	W         int     `json:"window"`
	Bootstrap int64   `json:"bootstrap"`
	Gaps      []int64 `json:"gaps"`
	QueryOnly bool    `json:"first_contact_by_query"`
}

// runFDCase replays one arrival sequence on a fresh detector and checks every
// clause after every arrival. Returns (signature, message) of the first
// failure.
func runFDCase(c fdCase) (sig, msg string) {
	defer func() {
		if r := recover(); r != nil {
			sig, msg = "panic", fmt.Sprintf("failure detector panicked: %v", r)
		}
	}()
	fd := gossip.VNewAccrualFD(time.Duration(c.Bootstrap)*fdUnit, c.W)
	ref := &fdRef{w: c.W, bootstrap: c.Bootstrap}
	t0 := time.Unix(1_000_000, 0)
	at := func(u int64) time.Time { return t0.Add(time.Duration(u) * fdUnit) }
	var now int64
	if c.QueryOnly {
		// a node never heard from: the first query starts the clock
		if got := fd.SuspicionLevelAt("n", at(now)); got != 0 {
			return "nonzero-at-first-contact", fmt.Sprintf("level %v at first contact", got)
		}
		ref.arrive(now)
	} else {
		fd.ReportWithTimestamp("n", at(now))
		ref.arrive(now)
	}
	check := func(step int) (string, string) {
		m := ref.mean()
		mf, _ := m.Float64()
		silent := int64(math.Ceil(21 * mf))
		offsets := []int64{0, 1, 3, 100, silent}
		sort.Slice(offsets, func(i, j int) bool { return offsets[i] < offsets[j] })
		prev := -1.0
		for _, off := range offsets {
			got := fd.SuspicionLevelAt("n", at(now+off))
			want := ref.phi(now + off)
			if !closeEnough(got, want) {
				wf, _ := want.Float64()
				return "level-differs-from-reference", fmt.Sprintf("after arrival %d (gaps %v, window %d, bootstrap %d) the level %d units later is %v, silence/mean of the last %d intervals gives %v", step, c.Gaps[:step], c.W, c.Bootstrap, off, got, c.W, wf)
			}
			if off == 0 && got != 0 {
				return "nonzero-at-arrival", fmt.Sprintf("level %v at the moment of arrival %d", got, step)
			}
			if got < prev {
				return "level-not-monotone", fmt.Sprintf("level decreased from %v to %v as silence grew", prev, got)
			}
			prev = got
		}
		if got := fd.SuspicionLevelAt("n", at(now+silent)); !(got > float64(gossip.VSuspicionThreshold)) {
			return "silent-peer-not-suspected", fmt.Sprintf("after %d units of silence (21 x mean) the level is only %v", silent, got)
		}
		return "", ""
	}
	if s, m := check(0); s != "" {
		return s, m
	}
	for i, g := range c.Gaps {
		// just before the next arrival: a steady peer must not be suspected
		m := ref.mean()
		before := fd.SuspicionLevelAt("n", at(now+g))
		ratio := new(big.Rat).Quo(big.NewRat(g, 1), m)
		if ratio.Cmp(big.NewRat(int64(gossip.VSuspicionThreshold), 1)) < 0 && before > float64(gossip.VSuspicionThreshold) {
			return "steady-peer-suspected", fmt.Sprintf("gap %d with mean %v gives level %v > threshold", g, m, before)
		}
		now += g
		fd.ReportWithTimestamp("n", at(now))
		ref.arrive(now)
		if s, m := check(i + 1); s != "" {
			return s, m
		}
	}
	return "", ""
}

func init() {
	register("C12", func(args []string) int {
		run := evid.NewRun("C12", "model_checking")
		// the long gap is an outage of thousands of bootstrap intervals
		gaps := []int64{1, 2, 5, 5000}
		windows := []int{1, 2, 3, 4}
		extra := 4
		// a second, wider gap alphabet on the smaller windows (thorough tier)
		var gaps2 []int64
		var windows2 []int
		if run.Thorough() {
			windows = []int{1, 2, 3, 4, 5}
			gaps2 = []int64{1, 2, 5, 50, 1000}
			windows2 = []int{1, 2, 3}
		}
		states, transitions, seqs := 0, 0, 0
		sigs := map[string]bool{}
		// the tree of histories is split at its first two levels into independent
		// subtrees, explored depth-first by a pool of workers
		type subtree struct {
			w    int
			boot int64
			q    bool
			pre  []int64
			gaps []int64
		}
		var jobs []subtree
		addTrees := func(windows []int, gaps []int64) {
			for _, w := range windows {
				for _, boot := range []int64{2, 7} {
					for _, q := range []bool{false, true} {
						states += 1 + len(gaps) // the root and its children
						transitions += len(gaps)
						for _, g1 := range gaps {
							for _, g2 := range gaps {
								jobs = append(jobs, subtree{w, boot, q, []int64{g1, g2}, gaps})
							}
						}
					}
				}
			}
		}
		addTrees(windows, gaps)
		addTrees(windows2, gaps2)
		var mu sync.Mutex
		var wg sync.WaitGroup
		jch := make(chan subtree, len(jobs))
		for _, j := range jobs {
			jch <- j
		}
		close(jch)
		for k := 0; k < 16; k++ {
			wg.Add(1)
			go func() {
				defer wg.Done()
				for j := range jch {
					maxLen := j.w + extra
					st, tr, sq := 0, 1, 0 // the transition into this subtree's root
					// depth-first over all gap sequences; a node of the tree is one
					// arrival history, checked in full when it is a leaf (the
					// check replays the history and validates after each arrival)
					var rec func(prefix []int64)
					rec = func(prefix []int64) {
						st++
						if len(prefix) == maxLen {
							sq++
							c := fdCase{W: j.w, Bootstrap: j.boot, Gaps: append([]int64(nil), prefix...), QueryOnly: j.q}
							if sig, msg := runFDCase(c); sig != "" {
								mu.Lock()
								report := !sigs[sig] || run.Violations() < 3
								sigs[sig] = true
								mu.Unlock()
								if report {
									run.Violation("C12", sig, msg, map[string]any{"engine": "E3-C12", "case": c})
								}
							}
							if sq%5003 == 1 {
								run.Sample(c)
							}
							return
						}
						for _, g := range j.gaps {
							tr++
							rec(append(prefix, g))
						}
					}
					rec(append([]int64(nil), j.pre...))
					mu.Lock()
					states += st
					transitions += tr
					seqs += sq
					mu.Unlock()
				}
			}()
		}
		wg.Wait()
		// "heard from": every delta datagram, whatever it carries (nothing, news,
		// stale news, news about others), is a heartbeat of its sender
		shapes := deltaShapes()
		for name, mk := range shapes {
			fd := &countFD{n: map[string]int{}}
			st := gossip.VNewClusterState("local", "10.0.0.1:7000", fd, sharedGossipMetrics, nopWatcher{})
			st.UpsertLocal("k", "v")
			pl := gossip.VNewPacketListener(discardConn{}, st, fd, 1400, sharedGossipMetrics)
			for rep := 1; rep <= 3; rep++ {
				_ = pl.VHandlePacket(mk())
				states++
				transitions++
				if fd.n["nY"] != rep {
					run.Violation("C12", "delta-not-counted-as-heartbeat", fmt.Sprintf("delta datagram #%d of shape %q from nY produced %d detector reports in total, want %d", rep, name, fd.n["nY"], rep), map[string]any{"engine": "E3-C12", "shape": name})
					break
				}
			}
		}
		run.Set("heartbeat_shapes", len(shapes))
		// the detector's memory of a node ends with the node (seq_c12_life.go)
		lc := c12Lifecycle(run)
		states += lc
		transitions += lc
		run.Set("lifecycle_cases", lc)
		// a steady peer is heard whatever its datagrams look like to the sockets:
		// real gossip.New instances on loopback (real_nodes.go)
		rn, rfails := realNodeScenarios()
		for _, f := range rfails {
			run.Violation("C12", "steady-peer-not-heard:"+f[0], f[1], map[string]any{"engine": "real-nodes", "scenario": f[0]})
		}
		states += rn
		transitions += rn
		run.Set("real_node_scenarios", rn)
		// a peer that falls silent is always eventually suspected by the running
		// node - also when sending to it fails (its host is gone) rather than
		// being silently dropped. Real gossip.New on loopback sockets.
		for _, sendFails := range []bool{false, true} {
			states++
			transitions++
			if msg := silentPeerSuspected(sendFails); msg != "" {
				run.Violation("C12", "silent-peer-never-suspected-by-running-node", msg, map[string]any{"engine": "E3-C12", "node_case_sends_fail": sendFails})
			}
		}
		run.Set("states", states)
		run.Set("transitions", transitions)
		run.Set("traces_validated_against_impl", seqs)
		run.Set("complete_sequences", seqs)
		run.Set("exhaustive", true)
		run.Set("second_alphabet", map[string]any{"gaps": gaps2, "windows": windows2})
		run.Set("alphabet", map[string]any{"gaps": gaps, "windows": windows, "bootstrap": []int{2, 7}, "length": "window+" + fmt.Sprint(extra), "query_offsets": "0,1,3,100,ceil(21*mean)", "first_contact": []string{"report", "query"}})
		run.Set("explanation", "every arrival history over the gap alphabet up to length window+k (tree of histories: states = histories, transitions = arrivals) is executed on the real accrualFailureDetector via ReportWithTimestamp/SuspicionLevelAt and compared after every arrival, at five query offsets, with an exact big.Rat reference (silence / mean of the last W intervals, first interval = bootstrap)")
		fmt.Printf("  C12: histories=%d complete sequences=%d\n", states, seqs)
		return run.Finish()
	})
	replayers["E3-C12"] = func(path string) int {
		var doc struct {
			Replay struct {
				Case fdCase `json:"case"`
			} `json:"replay"`
		}
		readJSON(path, &doc)
		s1, m1 := runFDCase(doc.Replay.Case)
		s2, m2 := runFDCase(doc.Replay.Case)
		fmt.Println(s1, m1)
		if s1 != s2 || m1 != m2 {
			evid.Fatal("replay is not deterministic")
		}
		return 0
	}
}
