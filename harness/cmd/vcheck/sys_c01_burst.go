package main

import (
	"fmt"
	"strings"
	"sync"
	"time"

	"verifharness/internal/e4"
	"verifharness/internal/evid"
)

// c01Burst: "once routing information has settled, every node serves E if
// some reachable node has an upstream for E" - also when the information is
// more than one gossip datagram and its entries are of uneven size: 48
// upstreams with endpoint ids of 3 and of ~500 bytes connect to node 0 at the
// same moment; then every endpoint is requested through node 1.
func c01Burst(run *evid.Run) (evals int) {
	nodes, err := e4.StartCluster(2, nil)
	if err != nil {
		evid.Fatal("start cluster: %v", err)
	}
	defer func() {
		for _, nd := range nodes {
			nd.Stop()
		}
	}()
	var ids []string
	for i := 0; i < 48; i++ {
		id := fmt.Sprintf("b%02d", i)
		if i%3 == 1 {
			id += strings.Repeat("x", 480+i)
		}
		ids = append(ids, id)
	}
	ups := make([]*rawUpstream, len(ids))
	var wg sync.WaitGroup
	var mu sync.Mutex
	var cerr error
	for i, id := range ids {
		wg.Add(1)
		go func(i int, id string) {
			defer wg.Done()
			u, err := dialRaw(nodes[0].UpstreamAddr(), id, fmt.Sprintf("u%d", i), "")
			mu.Lock()
			if err != nil {
				cerr = err
			}
			ups[i] = u
			mu.Unlock()
		}(i, id)
	}
	wg.Wait()
	defer func() {
		for _, u := range ups {
			if u != nil {
				u.sess.Close()
			}
		}
	}()
	if cerr != nil {
		evid.Fatal("burst connect: %v", cerr)
	}
	missing := func() []string {
		var out []string
		nd, ok := nodes[1].State().Node(nodes[0].ID)
		for _, id := range ids {
			if !ok || nd.Endpoints[id] != 1 {
				out = append(out, id[:3])
			}
		}
		return out
	}
	settled := e4.WaitFor(30*time.Second, func() bool { return len(missing()) == 0 })
	evals = len(ids)
	if !settled {
		m := missing()
		run.Violation("C01", "not-served-although-upstream-exists", fmt.Sprintf("48 upstreams (endpoint ids of 3 and of ~500 bytes) connected to node 0 at the same moment; 30 s later node 1 still does not know %d of their endpoints (%v): requests for them entering at node 1 are answered 502", len(m), m), map[string]any{"engine": "E4-C01-burst"})
		return
	}
	for _, id := range ids {
		r := e4.Do(nodes[1].ProxyAddr(), e4.Addressing{Mode: "header", Endpoint: id})
		if r.Status != 200 || r.Endpoint != id {
			if !e4.AllActive(nodes) {
				continue // a node was suspected meanwhile (starved machine): not judged
			}
			run.Violation("C01", "not-served-although-upstream-exists", fmt.Sprintf("endpoint %s… (id of %d bytes), upstream on node 0, request via node 1 -> %s", id[:3], len(id), r), map[string]any{"engine": "E4-C01-burst"})
			return
		}
	}
	return
}
