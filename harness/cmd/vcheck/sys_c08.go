package main

import (
	"bufio"
	"bytes"
	"context"
	"crypto/sha256"
	"fmt"
	"io"
	"net"
	"net/http"
	"net/url"
	"sort"
	"strings"
	"sync"
	"time"

	"github.com/gorilla/websocket"

	agentconfig "github.com/andydunstall/piko/agent/config"
	"github.com/andydunstall/piko/agent/reverseproxy"
	"github.com/andydunstall/piko/client"
	"github.com/andydunstall/piko/pkg/log"
	"github.com/andydunstall/piko/server/cluster"
	"github.com/andydunstall/piko/server/config"
	"verifharness/internal/e4"
	"verifharness/internal/evid"
)

// C08: HTTP proxying is transparent; gateway failures map to 400/502/504.

type c08Req struct {
	Method string `json:"method"`
	Path   string `json:"path"`
	Query  string `json:"query"`
	Hdrs   string `json:"headers"`
	Body   string `json:"body"`
	Resp   string `json:"response"`
	Route  string `json:"route"` // local | forwarded
}

var (
	c08Methods = []string{"GET", "POST", "PUT", "DELETE", "PATCH", "HEAD", "OPTIONS", "PROPFIND", "PURGE"}
	c08Paths   = []string{"/", "/a/b", "/a%2Fb", "/a%20b", "/%E2%9C%93", "//double"}
	c08Queries = []string{"", "a=b", "a=1&a=2", "q=%26%3D", "empty=", "+", "tags=red;green&page=2", "bad=%zz&ok=1"}
	c08Hdrs    = []string{"none", "multi", "authorization", "cookie", "host-port", "forwarded"}
	c08Bodies  = []string{"0", "1", "64k+1", "1M-chunked"}
	c08Resps   = []string{"200", "201-location", "204", "301", "404", "500", "set-cookies", "chunked", "trailer", "404-empty", "500-empty"}
)

func c08Body(kind string) []byte {
	switch kind {
	case "1":
		return []byte("x")
	case "64k+1":
		return bytes.Repeat([]byte("0123456789abcdef"), 4096+1)[:65537]
	case "1M-chunked":
		return bytes.Repeat([]byte("piko-verif-"), 95326)[:1 << 20]
	}
	return nil
}

type recorded struct {
	Method, URI, Host string
	Header            http.Header
	BodyLen           int
	BodySum           [32]byte
}

type c08Upstream struct {
	mu   sync.Mutex
	last map[string]*recorded // by X-Verif-Id
}

func (u *c08Upstream) ServeHTTP(w http.ResponseWriter, r *http.Request) {
	if websocket.IsWebSocketUpgrade(r) {
		up := websocket.Upgrader{CheckOrigin: func(*http.Request) bool { return true }}
		c, err := up.Upgrade(w, r, nil)
		if err != nil {
			return
		}
		defer c.Close()
		for {
			mt, b, err := c.ReadMessage()
			if err != nil {
				return
			}
			if c.WriteMessage(mt, b) != nil {
				return
			}
		}
	}
	b, _ := io.ReadAll(r.Body)
	rec := &recorded{Method: r.Method, URI: r.RequestURI, Host: r.Host, Header: r.Header.Clone(), BodyLen: len(b), BodySum: sha256.Sum256(b)}
	u.mu.Lock()
	u.last[r.Header.Get("X-Verif-Id")] = rec
	u.mu.Unlock()
	if d := r.Header.Get("X-Verif-Sleep"); d != "" {
		dur, _ := time.ParseDuration(d)
		time.Sleep(dur)
	}
	h := w.Header()
	h.Set("Content-Type", "text/plain; charset=utf-8")
	h.Set("X-Upstream-Header", "u1")
	switch r.Header.Get("X-Verif-Shape") {
	case "201-location":
		h.Set("Location", "/created/1?x=%2F")
		w.WriteHeader(201)
		_, _ = w.Write([]byte("created"))
	case "204":
		w.WriteHeader(204)
	case "301":
		h.Set("Location", "http://elsewhere.test/moved")
		w.WriteHeader(301)
		_, _ = w.Write([]byte("moved"))
	case "404":
		w.WriteHeader(404)
		_, _ = w.Write([]byte("nope"))
	case "500":
		w.WriteHeader(500)
		_, _ = w.Write([]byte("boom"))
	case "404-empty", "500-empty":
		// an error status with its own content type and no body at all
		h.Set("Content-Type", "application/problem+json")
		if r.Header.Get("X-Verif-Shape") == "404-empty" {
			w.WriteHeader(404)
		} else {
			w.WriteHeader(500)
		}
	case "set-cookies":
		h.Add("Set-Cookie", "a=1; Path=/")
		h.Add("Set-Cookie", "b=2; HttpOnly")
		h.Add("Set-Cookie", "a=3")
		_, _ = w.Write([]byte("cookies"))
	case "chunked":
		fl, _ := w.(http.Flusher)
		for i := 0; i < 5; i++ {
			_, _ = w.Write(bytes.Repeat([]byte{byte('a' + i)}, 3000))
			if fl != nil {
				fl.Flush()
			}
		}
	case "trailer":
		h.Set("Trailer", "X-Verif-Trailer")
		_, _ = w.Write([]byte("body-before-trailer"))
		h.Set("X-Verif-Trailer", "t1")
	case "abort-mid-body":
		// the upstream dies in the middle of a chunked body: part of the body is
		// on its way, then the connection is cut (no terminating chunk)
		_, _ = w.Write(bytes.Repeat([]byte("x"), 3000))
		if fl, ok := w.(http.Flusher); ok {
			fl.Flush()
		}
		time.Sleep(50 * time.Millisecond)
		panic(http.ErrAbortHandler)
	default:
		_, _ = w.Write([]byte("ok"))
	}
}

func c08Expected(shape string) (status int, body string, hdr map[string][]string, trailer string) {
	hdr = map[string][]string{"X-Upstream-Header": {"u1"}}
	switch shape {
	case "201-location":
		hdr["Location"] = []string{"/created/1?x=%2F"}
		return 201, "created", hdr, ""
	case "204":
		return 204, "", hdr, ""
	case "301":
		hdr["Location"] = []string{"http://elsewhere.test/moved"}
		return 301, "moved", hdr, ""
	case "404":
		return 404, "nope", hdr, ""
	case "500":
		return 500, "boom", hdr, ""
	case "404-empty":
		hdr["Content-Type"] = []string{"application/problem+json"}
		return 404, "", hdr, ""
	case "500-empty":
		hdr["Content-Type"] = []string{"application/problem+json"}
		return 500, "", hdr, ""
	case "set-cookies":
		hdr["Set-Cookie"] = []string{"a=1; Path=/", "b=2; HttpOnly", "a=3"}
		return 200, "cookies", hdr, ""
	case "chunked":
		var b []byte
		for i := 0; i < 5; i++ {
			b = append(b, bytes.Repeat([]byte{byte('a' + i)}, 3000)...)
		}
		return 200, string(b), hdr, ""
	case "trailer":
		return 200, "body-before-trailer", hdr, "t1"
	}
	return 200, "ok", hdr, ""
}

type c08World struct {
	agentAddr string // agent reverse proxy in front of the same upstream handler, over plain TCP
	closers   []io.Closer
	nodes     []*e4.FullNode
	up    *c08Upstream
	ln    client.Listener
	seq   int
	mu    sync.Mutex
}

// c08LogFilter: access-log header filters of the next world that is built
// ("" none, "block" = block list authorization,cookie, "allow" = allow list
// user-agent). They are logging options: they must not change what is proxied.
var c08LogFilter string

func c08ApplyLogFilter(al *log.AccessLogConfig) {
	switch c08LogFilter {
	case "block":
		al.RequestHeaders.BlockList = []string{"authorization", "cookie", "x-verif-id"}
		al.ResponseHeaders.BlockList = []string{"set-cookie", "x-upstream-header"}
	case "allow":
		al.RequestHeaders.AllowList = []string{"user-agent"}
		al.ResponseHeaders.AllowList = []string{"content-type"}
	case "allow-enabled":
		// the access log really is written (to a discarded logger)
		al.Disable = false
		al.RequestHeaders.AllowList = []string{"user-agent"}
		al.ResponseHeaders.AllowList = []string{"content-type"}
	case "block-enabled":
		al.Disable = false
		al.RequestHeaders.BlockList = []string{"authorization", "cookie"}
		al.ResponseHeaders.BlockList = []string{"set-cookie", "x-verif-trailer", "x-upstream-header"}
	}
}

func newC08World(timeout time.Duration) *c08World {
	nodes, err := e4.StartCluster(2, func(i int, c *config.Config) {
		c.Proxy.Timeout = timeout
		c08ApplyLogFilter(&c.Proxy.AccessLog)
	})
	if err != nil {
		evid.Fatal("cluster: %v", err)
	}
	w := &c08World{nodes: nodes, up: &c08Upstream{last: map[string]*recorded{}}}
	u := &client.Upstream{URL: &url.URL{Scheme: "http", Host: nodes[1].UpstreamAddr()}}
	ln, err := u.Listen(context.Background(), "e1")
	if err != nil {
		evid.Fatal("listen: %v", err)
	}
	w.ln = ln
	go func() { _ = http.Serve(ln, w.up) }()
	// the agent path: agent reverse proxy -> local service (same handler)
	svc, err := net.Listen("tcp", "127.0.0.1:0")
	if err != nil {
		evid.Fatal("listen: %v", err)
	}
	go func() { _ = http.Serve(svc, w.up) }()
	front, err := net.Listen("tcp", "127.0.0.1:0")
	if err != nil {
		evid.Fatal("listen: %v", err)
	}
	// the agent's own HTTP server (router, middleware) around its reverse proxy
	rp := reverseproxy.NewServer(agentconfig.ListenerConfig{EndpointID: "e1", Addr: svc.Addr().String(), Timeout: timeout, AccessLog: agentAccessLogOff()}, reverseproxy.NewMetrics("verif_c08"), log.NewNopLogger())
	go func() { _ = rp.Serve(front) }()
	w.agentAddr = front.Addr().String()
	w.closers = append(w.closers, svc, front)
	if !e4.WaitFor(20*time.Second, func() bool {
		n, ok := nodes[0].State().Node(nodes[1].ID)
		return ok && n.Endpoints["e1"] == 1
	}) {
		evid.Fatal("cluster did not settle")
	}
	return w
}

func (w *c08World) close() {
	for _, c := range w.closers {
		c.Close()
	}
	_ = w.ln.Shutdown()
	for _, n := range w.nodes {
		n.Stop()
	}
}

var hopHeaders = map[string]bool{"Connection": true, "X-Forwarded-For": true, "X-Piko-Forward": true, "Accept-Encoding": true, "User-Agent": true, "Content-Length": true, "Transfer-Encoding": true}

func (w *c08World) run(c c08Req) (sig, msg string) {
	w.mu.Lock()
	w.seq++
	id := fmt.Sprintf("r%d", w.seq)
	w.mu.Unlock()
	node := w.nodes[1]
	if c.Route == "forwarded" {
		node = w.nodes[0]
	}
	addr := node.ProxyAddr()
	if c.Route == "agent" {
		addr = w.agentAddr
	}
	target := "http://" + addr + c.Path
	if c.Query != "" {
		target += "?" + c.Query
	}
	body := c08Body(c.Body)
	var rd io.Reader
	if body != nil {
		rd = bytes.NewReader(body)
		if c.Body == "1M-chunked" {
			rd = io.MultiReader(bytes.NewReader(body)) // unknown length => chunked
		}
	}
	req, err := http.NewRequest(c.Method, target, rd)
	if err != nil {
		return "bad-request", err.Error()
	}
	// keep the escaped path exactly as written
	if u, perr := url.ParseRequestURI(c.Path); perr == nil {
		req.URL.Path, req.URL.RawPath = u.Path, u.RawPath
	}
	req.Host = "e1.piko.test"
	sent := http.Header{}
	sent.Set("X-Verif-Id", id)
	sent.Set("X-Verif-Shape", c.Resp)
	sent.Set("X-Custom-End-To-End", "v w")
	switch c.Hdrs {
	case "multi":
		sent.Add("X-Multi", "one")
		sent.Add("X-Multi", "two")
		sent.Add("X-Multi", "one")
	case "authorization":
		sent.Set("Authorization", "Basic dXNlcjpwYXNz")
	case "cookie":
		sent.Set("Cookie", "sid=abc; theme=dark")
	case "host-port":
		req.Host = "e1.piko.test:8443"
	case "forwarded":
		// set by an outer proxy in front of piko: end-to-end as far as piko is concerned
		sent.Set("Forwarded", "for=192.0.2.60;proto=https")
		sent.Set("X-Forwarded-Host", "public.example.com")
		sent.Set("X-Forwarded-Proto", "https")
	}
	for k, v := range sent {
		req.Header[k] = v
	}
	cl := &http.Client{Transport: &http.Transport{DisableKeepAlives: true, DisableCompression: true}, Timeout: 60 * time.Second,
		CheckRedirect: func(*http.Request, []*http.Request) error { return http.ErrUseLastResponse }}
	resp, err := cl.Do(req)
	desc := fmt.Sprintf("%+v", c)
	if err != nil {
		return "request-failed", desc + ": " + err.Error()
	}
	rb, _ := io.ReadAll(resp.Body)
	resp.Body.Close()
	w.up.mu.Lock()
	rec := w.up.last[id]
	delete(w.up.last, id)
	w.up.mu.Unlock()
	if rec == nil {
		return "request-not-delivered", fmt.Sprintf("%s: upstream never saw the request (status %d)", desc, resp.StatusCode)
	}
	// request side
	wantURI := c.Path
	if c.Query != "" {
		wantURI += "?" + c.Query
	}
	if rec.Method != c.Method {
		return "method-changed", fmt.Sprintf("%s: upstream saw method %s", desc, rec.Method)
	}
	if rec.URI != wantURI {
		return "uri-changed", fmt.Sprintf("%s: upstream saw request-target %q, client sent %q", desc, rec.URI, wantURI)
	}
	if rec.Host != req.Host {
		return "host-changed", fmt.Sprintf("%s: upstream saw Host %q, client sent %q", desc, rec.Host, req.Host)
	}
	if rec.BodyLen != len(body) || rec.BodySum != sha256.Sum256(body) {
		return "body-changed", fmt.Sprintf("%s: upstream saw a body of %d bytes, client sent %d", desc, rec.BodyLen, len(body))
	}
	for k, v := range sent {
		if fmt.Sprint(rec.Header[k]) != fmt.Sprint(v) {
			return "request-header-changed", fmt.Sprintf("%s: header %s arrived as %v, sent %v", desc, k, rec.Header[k], v)
		}
	}
	for k, v := range rec.Header {
		if _, ok := sent[k]; !ok && !hopHeaders[k] {
			return "request-header-added", fmt.Sprintf("%s: upstream saw an extra header %s=%v", desc, k, v)
		}
	}
	// response side
	st, wb, wh, tr := c08Expected(c.Resp)
	if resp.StatusCode != st {
		return "status-changed", fmt.Sprintf("%s: client saw status %d, upstream sent %d", desc, resp.StatusCode, st)
	}
	if c.Method != "HEAD" && string(rb) != wb {
		return "response-body-changed", fmt.Sprintf("%s: client saw a body of %d bytes, upstream sent %d", desc, len(rb), len(wb))
	}
	for k, v := range wh {
		if fmt.Sprint(resp.Header[k]) != fmt.Sprint(v) {
			return "response-header-changed", fmt.Sprintf("%s: response header %s arrived as %v, upstream sent %v", desc, k, resp.Header[k], v)
		}
	}
	if tr != "" && c.Method != "HEAD" && resp.Trailer.Get("X-Verif-Trailer") != tr {
		return "trailer-lost", fmt.Sprintf("%s: trailer arrived as %q", desc, resp.Trailer.Get("X-Verif-Trailer"))
	}
	return "", ""
}

func c08Cases(full bool) []c08Req {
	dims := [][]string{c08Methods, c08Paths, c08Queries, c08Hdrs, c08Bodies, c08Resps}
	mk := func(ix []int, route string) c08Req {
		return c08Req{Method: dims[0][ix[0]], Path: dims[1][ix[1]], Query: dims[2][ix[2]], Hdrs: dims[3][ix[3]], Body: dims[4][ix[4]], Resp: dims[5][ix[5]], Route: route}
	}
	seen := map[c08Req]bool{}
	var out []c08Req
	add := func(c c08Req) {
		if (c.Method == "GET" || c.Method == "HEAD" || c.Method == "DELETE" || c.Method == "OPTIONS") && c.Body != "0" {
			// bodies on these methods are legal but the Go client drops or
			// rejects some of them; keep the grid to what a client sends
			c.Body = "0"
		}
		if !seen[c] {
			seen[c] = true
			out = append(out, c)
		}
	}
	for _, route := range []string{"local", "forwarded", "agent"} {
		if full {
			var rec func(d int, ix []int)
			rec = func(d int, ix []int) {
				if d == len(dims) {
					add(mk(ix, route))
					return
				}
				for i := range dims[d] {
					rec(d+1, append(ix, i))
				}
			}
			rec(0, nil)
			continue
		}
		// every pair of dimensions fully crossed, the others at their baseline
		base := []int{1, 1, 1, 0, 1, 0} // POST /a/b?a=b no extra headers, 1-byte body, 200
		for a := 0; a < len(dims); a++ {
			for b := a + 1; b < len(dims); b++ {
				for i := range dims[a] {
					for j := range dims[b] {
						ix := append([]int(nil), base...)
						ix[a], ix[b] = i, j
						add(mk(ix, route))
					}
				}
			}
		}
	}
	return out
}

func agentAccessLogOff() (c log.AccessLogConfig) {
	c.Disable = true
	c.Level = "info"
	c08ApplyLogFilter(&c)
	return c
}

// ---------------------------------------------------------------------------
// failure matrix

func rawRequest(addr string, lines ...string) (*http.Response, net.Conn, *bufio.Reader, error) {
	c, err := net.DialTimeout("tcp", addr, 10*time.Second)
	if err != nil {
		return nil, nil, nil, err
	}
	_ = c.SetDeadline(time.Now().Add(30 * time.Second))
	if _, err := c.Write([]byte(strings.Join(lines, "\r\n") + "\r\n\r\n")); err != nil {
		c.Close()
		return nil, nil, nil, err
	}
	br := bufio.NewReader(c)
	resp, err := http.ReadResponse(br, nil)
	if err != nil {
		c.Close()
		return nil, nil, nil, err
	}
	return resp, c, br, nil
}

// wsStaysOpen performs a WebSocket handshake with the given spelling of the
// Upgrade header value, waits for `wait`, then exchanges one frame.
func wsStaysOpen(addr, host, upgradeValue string, wait time.Duration) error {
	return wsStaysOpenConn(addr, host, upgradeValue, "Upgrade", wait)
}

// wsStaysOpenConn: the Connection header is a token list; a handshake may
// name other options besides Upgrade (browsers send "keep-alive, Upgrade").
func wsStaysOpenConn(addr, host, upgradeValue, connectionValue string, wait time.Duration) error {
	resp, c, br, err := rawRequest(addr,
		"GET /ws HTTP/1.1", "Host: "+host, "Upgrade: "+upgradeValue, "Connection: "+connectionValue,
		"Sec-WebSocket-Key: dGhlIHNhbXBsZSBub25jZQ==", "Sec-WebSocket-Version: 13")
	if err != nil {
		return fmt.Errorf("handshake: %w", err)
	}
	defer c.Close()
	if resp.StatusCode != 101 {
		return fmt.Errorf("handshake status %d", resp.StatusCode)
	}
	time.Sleep(wait)
	_ = c.SetDeadline(time.Now().Add(10 * time.Second))
	// masked text frame "hi"
	mask := []byte{1, 2, 3, 4}
	frame := []byte{0x81, 0x82, 1, 2, 3, 4, 'h' ^ mask[0], 'i' ^ mask[1]}
	if _, err := c.Write(frame); err != nil {
		return fmt.Errorf("write after %s: %w", wait, err)
	}
	hdr := make([]byte, 4)
	if _, err := io.ReadFull(br, hdr); err != nil {
		return fmt.Errorf("connection was cut (read after %s: %v)", wait, err)
	}
	if hdr[0] != 0x81 || hdr[1] != 2 || string(hdr[2:]) != "hi" {
		return fmt.Errorf("unexpected echo frame % x", hdr)
	}
	return nil
}

func c08Failures(run *evid.Run, evals, nontrivial *int) {
	timeout := 400 * time.Millisecond
	w := newC08World(timeout)
	defer w.close()
	report := func(kind, sig, msg string) {
		*evals++
		*nontrivial++
		run.Sample(map[string]any{"failure_case": kind})
		if sig != "" {
			run.Violation("C08", sig, kind+": "+msg, map[string]any{"engine": "E4-C08", "failure_case": kind})
		}
	}
	get := func(node *e4.FullNode, host string, hdr map[string]string) (int, time.Duration, error) {
		req, _ := http.NewRequest("GET", "http://"+node.ProxyAddr()+"/x", nil)
		req.Host = host
		for k, v := range hdr {
			req.Header.Set(k, v)
		}
		t0 := time.Now()
		resp, err := e4.Client().Do(req)
		if err != nil {
			return 0, time.Since(t0), err
		}
		io.Copy(io.Discard, resp.Body)
		resp.Body.Close()
		return resp.StatusCode, time.Since(t0), nil
	}
	expect := func(kind string, node *e4.FullNode, host string, hdr map[string]string, want int) {
		st, _, err := get(node, host, hdr)
		for r := 0; r < 3 && (err != nil || st != want) && !e4.AllActive(w.nodes); r++ {
			e4.WaitAllActive(w.nodes, 30*time.Second) // membership flapped under load: decide afresh
			st, _, err = get(node, host, hdr)
		}
		switch {
		case err != nil:
			report(kind, "no-response", err.Error())
		case st != want:
			report(kind, "wrong-gateway-status", fmt.Sprintf("got %d, want %d", st, want))
		default:
			report(kind, "", "")
		}
	}
	for _, n := range w.nodes {
		// endpoint cannot be determined
		expect("host is an IP address", n, "127.0.0.1", nil, 400)
		expect("host without a dot", n, "localhost", nil, 400)
		expect("host is an IP with port", n, n.ProxyAddr(), nil, 400)
		// no upstream anywhere
		expect("no upstream for the endpoint (host)", n, "nobody.piko.test", nil, 502)
		expect("no upstream for the endpoint (header)", n, "x.y", map[string]string{"x-piko-endpoint": "nobody"}, 502)
		// slower than the timeout: 504, and it does arrive
		st, el, err := get(n, "e1.piko.test", map[string]string{"X-Verif-Sleep": "2s", "X-Verif-Id": "slow"})
		switch {
		case err != nil:
			report("upstream slower than the timeout", "no-response", err.Error())
		case st != 504:
			report("upstream slower than the timeout", "wrong-gateway-status", fmt.Sprintf("got %d after %s, want 504", st, el))
		default:
			report("upstream slower than the timeout", "", "")
		}
		// faster than the timeout: untouched
		expect("upstream within the timeout", n, "e1.piko.test", map[string]string{"X-Verif-Sleep": "50ms", "X-Verif-Id": "fast"}, 200)
		// the upstream's connection is cut in the middle of a chunked body: the
		// status is long gone, so the only way to be transparent is to cut the
		// client's response too - never to finish it as if it were complete
		{
			kind := "upstream connection cut in the middle of the response body, via " + n.ID
			sig, msg := abortMidBody("http://"+n.ProxyAddr()+"/x", "e1.piko.test")
			report(kind, sig, msg)
		}
		// WebSocket upgrades are exempt from the timeout, however spelled
		for _, spelling := range []string{"websocket", "WebSocket", "WEBSOCKET"} {
			err := wsStaysOpen(n.ProxyAddr(), "e1.piko.test", spelling, 3*timeout)
			kind := "websocket upgrade (Upgrade: " + spelling + ") outlives the proxy timeout via " + n.ID
			if err != nil {
				report(kind, "timeout-applied-to-websocket-upgrade:"+spelling, err.Error())
			} else {
				report(kind, "", "")
			}
		}
		// (the last one: the options on two Connection field lines)
		for _, conn := range []string{"keep-alive, Upgrade", "upgrade", "Upgrade, keep-alive", "keep-alive\r\nConnection: Upgrade"} {
			err := wsStaysOpenConn(n.ProxyAddr(), "e1.piko.test", "websocket", conn, 3*timeout)
			kind := "websocket upgrade (Connection: " + conn + ") outlives the proxy timeout via " + n.ID
			if err != nil {
				report(kind, "timeout-applied-to-websocket-upgrade:connection-token-list", err.Error())
			} else {
				report(kind, "", "")
			}
		}
	}
	{
		sig, msg := abortMidBody("http://"+w.agentAddr+"/x", "")
		report("service connection cut in the middle of the response body, via the agent's HTTP server", sig, msg)
	}
	// upstream unreachable in the ways a component upstream can fail
	cl := e4.NewCompCluster(1, func() config.ProxyConfig { pc := e4.DefaultProxyConfig(); pc.Timeout = timeout; return pc }(), nil)
	defer cl.Close()
	su := &e4.StampUpstream{Endpoint: "e1", Name: "u", Node: "n0"}
	cl.Nodes[0].Mgr.AddConn(su)
	one := func(kind string, want int) {
		res := e4.Do(cl.Nodes[0].Addr, e4.Addressing{Mode: "header", Endpoint: "e1"})
		if res.Err != "" {
			report(kind, "no-response", res.Err)
		} else if res.Status != want {
			report(kind, "wrong-gateway-status", fmt.Sprintf("got %d, want %d", res.Status, want))
		} else {
			report(kind, "", "")
		}
	}
	one("healthy component upstream", 200)
	// forwarded to a node that accepts the connection and then says nothing
	stall, err := net.Listen("tcp", "127.0.0.1:0")
	if err != nil {
		evid.Fatal("listen: %v", err)
	}
	defer stall.Close()
	go func() {
		for {
			c, err := stall.Accept()
			if err != nil {
				return
			}
			defer c.Close()
		}
	}()
	cl.Nodes[0].CS.AddNode(&cluster.Node{ID: "silent", Status: cluster.NodeStatusActive, ProxyAddr: stall.Addr().String(), AdminAddr: "127.0.0.1:1", Endpoints: map[string]int{"e7": 1}})
	{
		t0 := time.Now()
		res := e4.Do(cl.Nodes[0].Addr, e4.Addressing{Mode: "header", Endpoint: "e7"})
		kind := "forwarded to a node that accepts the connection but never answers"
		switch {
		case res.Err != "":
			report(kind, "no-response", fmt.Sprintf("%s after %s", res.Err, time.Since(t0).Round(time.Millisecond)))
		case res.Status != 504:
			report(kind, "wrong-gateway-status", fmt.Sprintf("got %d, want 504", res.Status))
		default:
			report(kind, "", "")
		}
	}
	c08Stall(report)
	su.Refuse.Store(true)
	one("upstream refuses the connection", 502)
	su.Refuse.Store(false)
	su.Gone.Store(true)
	one("upstream session says go-away", 502)
	su.Gone.Store(false)
	cl.Nodes[0].Mgr.AddConn(su) // the proxy removed it on ErrGone
	su.Early.Store(true)
	one("upstream closes before responding", 502)
}

// agent reverse proxy: same timeout / upgrade logic in front of a local service
func c08Agent(run *evid.Run, evals, nontrivial *int) {
	timeout := 400 * time.Millisecond
	up := &c08Upstream{last: map[string]*recorded{}}
	svc, err := net.Listen("tcp", "127.0.0.1:0")
	if err != nil {
		evid.Fatal("listen: %v", err)
	}
	defer svc.Close()
	go func() { _ = http.Serve(svc, up) }()
	rp := reverseproxy.NewReverseProxy(agentconfig.ListenerConfig{EndpointID: "e1", Addr: svc.Addr().String(), Timeout: timeout}, log.NewNopLogger())
	front, err := net.Listen("tcp", "127.0.0.1:0")
	if err != nil {
		evid.Fatal("listen: %v", err)
	}
	defer front.Close()
	go func() { _ = http.Serve(front, rp) }()
	report := func(kind, sig, msg string) {
		*evals++
		*nontrivial++
		if sig != "" {
			run.Violation("C08", sig, "agent reverse proxy: "+kind+": "+msg, map[string]any{"engine": "E4-C08", "failure_case": "agent: " + kind})
		}
	}
	do := func(hdr map[string]string) (int, error) {
		req, _ := http.NewRequest("GET", "http://"+front.Addr().String()+"/x", nil)
		for k, v := range hdr {
			req.Header.Set(k, v)
		}
		resp, err := e4.Client().Do(req)
		if err != nil {
			return 0, err
		}
		io.Copy(io.Discard, resp.Body)
		resp.Body.Close()
		return resp.StatusCode, nil
	}
	if st, err := do(map[string]string{"X-Verif-Sleep": "2s", "X-Verif-Id": "a"}); err != nil || st != 504 {
		report("service slower than the timeout", "wrong-gateway-status", fmt.Sprintf("got %d err %v, want 504", st, err))
	} else {
		report("service slower than the timeout", "", "")
	}
	if st, err := do(map[string]string{"X-Verif-Id": "b"}); err != nil || st != 200 {
		report("healthy service", "wrong-gateway-status", fmt.Sprintf("got %d err %v, want 200", st, err))
	} else {
		report("healthy service", "", "")
	}
	for _, spelling := range []string{"websocket", "WebSocket", "WEBSOCKET"} {
		if err := wsStaysOpen(front.Addr().String(), "e1", spelling, 3*timeout); err != nil {
			report("websocket upgrade (Upgrade: "+spelling+")", "timeout-applied-to-websocket-upgrade:"+spelling, err.Error())
		} else {
			report("websocket upgrade (Upgrade: "+spelling+")", "", "")
		}
	}
	// unreachable service
	dead := reverseproxy.NewReverseProxy(agentconfig.ListenerConfig{EndpointID: "e1", Addr: "127.0.0.1:1", Timeout: timeout}, log.NewNopLogger())
	f2, _ := net.Listen("tcp", "127.0.0.1:0")
	defer f2.Close()
	go func() { _ = http.Serve(f2, dead) }()
	resp, err := e4.Client().Get("http://" + f2.Addr().String() + "/x")
	if err != nil || resp.StatusCode != 502 {
		st := 0
		if resp != nil {
			st = resp.StatusCode
		}
		report("service unreachable", "wrong-gateway-status", fmt.Sprintf("got %d err %v, want 502", st, err))
	} else {
		report("service unreachable", "", "")
	}
	if resp != nil {
		resp.Body.Close()
	}
}

func init() {
	register("C08", func(args []string) int {
		run := evid.NewRun("C08", "exploration")
		cases := c08Cases(run.Thorough())
		// the shipped default timeouts against a slow upstream: 11 s of wall
		// time, alongside everything else (sys_c08_defaults.go)
		type sm struct{ sig, msg string }
		defCh := make(chan sm, 1)
		go func() { s, m := c08DefaultTimeouts(); defCh <- sm{s, m} }()
		w := newC08World(30 * time.Second)
		var mu sync.Mutex
		evals, nontrivial, flaps := 0, 0, 0
		ch := make(chan c08Req, 64)
		var wg sync.WaitGroup
		for k := 0; k < 8; k++ {
			wg.Add(1)
			go func() {
				defer wg.Done()
				for c := range ch {
					sig, msg := w.run(c)
					for r := 0; r < 2 && sig == "request-failed"; r++ {
						sig, msg = w.run(c)
					}
					// a refusal while a node is (wrongly, for a moment) suspected on a
					// starved machine is not the proxy's doing: once everybody is active
					// again the case is decided afresh
					for r := 0; r < 3 && sig != "" && !e4.AllActive(w.nodes); r++ {
						mu.Lock()
						flaps++
						mu.Unlock()
						e4.WaitAllActive(w.nodes, 30*time.Second)
						sig, msg = w.run(c)
					}
					mu.Lock()
					evals++
					nontrivial++
					if evals%211 == 1 {
						run.Sample(c)
					}
					mu.Unlock()
					if sig != "" {
						run.Violation("C08", sig, msg, map[string]any{"engine": "E4-C08", "case": c})
					}
				}
			}()
		}
		for _, c := range cases {
			ch <- c
		}
		close(ch)
		wg.Wait()
		w.close()
		fmt.Printf("  C08 transparency: requests=%d\n", evals)
		// the same clusters with access-log header filters configured: every header
		// set x response shape x route once more (logging options change nothing)
		for _, lf := range []string{"block", "allow", "allow-enabled", "block-enabled"} {
			c08LogFilter = lf
			wl := newC08World(30 * time.Second)
			c08LogFilter = ""
			for _, route := range []string{"local", "forwarded", "agent"} {
				for _, hd := range c08Hdrs {
					for _, rs := range []string{"200", "set-cookies", "201-location", "trailer", "chunked"} {
						c := c08Req{Method: "POST", Path: "/a/b", Query: "a=b", Hdrs: hd, Body: "1", Resp: rs, Route: route}
						sig, msg := wl.run(c)
						for r := 0; r < 3 && sig != "" && (sig == "request-failed" || !e4.AllActive(wl.nodes)); r++ {
							e4.WaitAllActive(wl.nodes, 30*time.Second)
							sig, msg = wl.run(c)
						}
						evals++
						nontrivial++
						if sig != "" {
							run.Violation("C08", sig, "access-log header filter '"+lf+"' configured: "+msg, map[string]any{"engine": "E4-C08", "case": c, "access_log_filter": lf})
						}
					}
				}
			}
			wl.close()
		}
		c08LBSequences(run, &evals, &nontrivial)
		c08MoveSequences(run, &evals, &nontrivial)
		if d := <-defCh; d.sig == "harness" {
			if run.Violations() == 0 {
				evid.Fatal("default-timeouts case: %s", d.msg)
			}
		} else {
			evals++
			nontrivial++
			if d.sig != "" {
				run.Violation("C08", d.sig, d.msg, map[string]any{"engine": "E4-C08", "failure_case": "default timeouts, upstream answers after 10.5s"})
			}
		}
		c08Failures(run, &evals, &nontrivial)
		c08Agent(run, &evals, &nontrivial)
		c08Auth(run, &evals, &nontrivial)
		// forwarding between nodes of a TLS cluster (tls_util.go)
		tn := c01TLS(run, "C08")
		evals += tn
		nontrivial += tn
		run.Set("evaluations", evals)
		run.Set("cases_redone_after_a_membership_flap", flaps)
		run.Set("distinct_nontrivial", nontrivial)
		grid := "every pair of dimensions fully crossed (others at a baseline)"
		if run.Thorough() {
			grid = "full cross product"
		}
		run.Set("rule", "2 real servers, real client listener with an http.Server behind it; requests over method x escaped path x query x header set x body (incl. 64KiB+1 and 1MiB chunked) x response shape (incl. repeated Set-Cookie, 204, 301, chunked, trailer) x {local, forwarded}: "+grid+"; every case is distinct; plus the gateway failure matrix (400/502/504, WebSocket upgrade exempt from the timeout in three spellings) on the server proxy, a component upstream and the agent reverse proxy")
		run.Set("exhaustive", true)
		var dims []string
		for _, d := range [][]string{c08Methods, c08Paths, c08Queries, c08Hdrs, c08Bodies, c08Resps} {
			dims = append(dims, strings.Join(d, " "))
		}
		sort.Strings(dims)
		run.Set("grid", dims)
		return run.Finish()
	})
	replayers["E4-C08"] = func(path string) int {
		var doc struct {
			Replay struct {
				Case *c08Req `json:"case"`
			} `json:"replay"`
		}
		readJSON(path, &doc)
		if doc.Replay.Case == nil {
			fmt.Println("failure-matrix case: re-run ./check C08 quick")
			return 0
		}
		w := newC08World(30 * time.Second)
		defer w.close()
		for i := 0; i < 2; i++ {
			fmt.Println(w.run(*doc.Replay.Case))
		}
		return 0
	}
}
