package main

import (
	"errors"
	"fmt"
	"net"
	"sync/atomic"
	"time"

	"github.com/andydunstall/piko/pkg/gossip"
	"github.com/andydunstall/piko/pkg/log"
	"verifharness/internal/e4"
)

// failingConn fails every write to one address once armed.
type failingConn struct {
	net.PacketConn
	dead  atomic.Value // string address
	armed atomic.Bool
}

func (c *failingConn) WriteTo(p []byte, a net.Addr) (int, error) {
	if c.armed.Load() {
		if d, _ := c.dead.Load().(string); d == a.String() {
			return 0, errors.New("sendto: no route to host")
		}
	}
	return c.PacketConn.WriteTo(p, a)
}

func newRealGossip(id string, wrap func(net.PacketConn) net.PacketConn) (*gossip.Gossip, string, error) {
	sl, err := net.Listen("tcp", "127.0.0.1:0")
	if err != nil {
		return nil, "", err
	}
	pc, err := net.ListenUDP("udp", &net.UDPAddr{IP: net.ParseIP("127.0.0.1"), Port: sl.Addr().(*net.TCPAddr).Port})
	if err != nil {
		return nil, "", err
	}
	var conn net.PacketConn = pc
	if wrap != nil {
		conn = wrap(pc)
	}
	addr := sl.Addr().String()
	g := gossip.New(id, &gossip.Config{BindAddr: addr, AdvertiseAddr: addr, Interval: 10 * time.Millisecond, MaxPacketSize: 1400}, sl, conn, nopWatcher{}, log.NewNopLogger())
	return g, addr, nil
}

// silentPeerSuspected: two real gossip instances; B is closed (falls silent).
// A must mark it unreachable. With sendFails, A's datagrams to B fail with an
// error instead of vanishing.
func silentPeerSuspected(sendFails bool) string {
	var fc *failingConn
	a, _, err := newRealGossip("nA", func(pc net.PacketConn) net.PacketConn { fc = &failingConn{PacketConn: pc}; return fc })
	if err != nil {
		return "setup: " + err.Error()
	}
	defer a.Close()
	b, baddr, err := newRealGossip("nB", nil)
	if err != nil {
		return "setup: " + err.Error()
	}
	if _, err := b.Join([]string{a.LocalNode().Addr}); err != nil {
		b.Close()
		return "setup: join: " + err.Error()
	}
	known := e4.WaitFor(10*time.Second, func() bool { _, ok := a.Node("nB"); return ok })
	if !known {
		b.Close()
		return "setup: A never learned B"
	}
	time.Sleep(100 * time.Millisecond) // a few healthy rounds
	fc.dead.Store(baddr)
	b.Close()
	if sendFails {
		fc.armed.Store(true)
	}
	ok := e4.WaitFor(30*time.Second, func() bool {
		n, ok := a.Node("nB")
		return !ok || n.Unreachable
	})
	if !ok {
		return fmt.Sprintf("peer nB fell silent (sends to it fail: %v) and 30s later the running node still does not mark it unreachable", sendFails)
	}
	return ""
}
