package main

import (
	"encoding/json"
	"os"

	"verifharness/internal/evid"
)

func readJSON(path string, v any) {
	b, err := os.ReadFile(path)
	if err != nil {
		evid.Fatal("read %s: %v", path, err)
	}
	if err := json.Unmarshal(b, v); err != nil {
		evid.Fatal("parse %s: %v", path, err)
	}
}
