package main

import (
	"bytes"
	"encoding/hex"
	"fmt"
)

// Two-message sequences with a hostile node id: every datagram and stream of
// the recorded exchange in which one node's id is replaced (same length, so
// the framing stays valid) by a byte string that is not valid UTF-8, and every
// ordered pair of those messages fed to one fresh node: a check made when a
// node is first met must also hold when it is met again through another kind
// of message.

type pairFail struct {
	Msg     string `json:"msg"`
	First   string `json:"first_hex"`
	Second  string `json:"second_hex"`
	Stream1 bool   `json:"first_is_stream"`
	Stream2 bool   `json:"second_is_stream"`
}

func feedPair(s1 bool, m1 []byte, s2 bool, m2 []byte) string {
	node := newHostileNode()
	if msg := node.feed(s1, m1); msg != "" {
		return "first message: " + msg
	}
	if msg := node.feed(s2, m2); msg != "" {
		return "second message: " + msg
	}
	return ""
}

func hostilePairs(packets, streams [][]byte) (n int64, fails []pairFail) {
	type m struct {
		stream bool
		b      []byte
	}
	ids := [][]byte{[]byte("nX"), []byte("nO"), []byte("nR")}
	hostile := [][]byte{{'n', 0x82}, {0xff, 0xfe}}
	for _, id := range ids {
		for _, h := range hostile {
			var ms []m
			seen := map[string]bool{}
			add := func(stream bool, b []byte) {
				if !bytes.Contains(b, id) {
					return
				}
				v := bytes.ReplaceAll(b, id, h)
				k := fmt.Sprint(stream) + string(v)
				if !seen[k] {
					seen[k] = true
					ms = append(ms, m{stream, v})
				}
			}
			for _, p := range packets {
				add(false, p)
			}
			for _, s := range streams {
				add(true, s)
			}
			for _, a := range ms {
				for _, b := range ms {
					n++
					if msg := feedPair(a.stream, a.b, b.stream, b.b); msg != "" && len(fails) < 5 {
						fails = append(fails, pairFail{fmt.Sprintf("node id %q replaced by % x: %s", id, h, msg), hex.EncodeToString(a.b), hex.EncodeToString(b.b), a.stream, b.stream})
					}
				}
			}
		}
	}
	return
}

func init() {
	replayers["E3-C13-pair"] = func(path string) int {
		var doc struct {
			Replay struct {
				Pair pairFail `json:"pair"`
			} `json:"replay"`
		}
		readJSON(path, &doc)
		a, _ := hex.DecodeString(doc.Replay.Pair.First)
		b, _ := hex.DecodeString(doc.Replay.Pair.Second)
		m1 := feedPair(doc.Replay.Pair.Stream1, a, doc.Replay.Pair.Stream2, b)
		m2 := feedPair(doc.Replay.Pair.Stream1, a, doc.Replay.Pair.Stream2, b)
		fmt.Println(m1)
		if m1 != m2 {
			fmt.Println("replay is not deterministic")
			return 2
		}
		return 0
	}
}
