package main

import (
	"strings"
	"verifharness/internal/evid"
	"verifharness/internal/gw"
)

func P(name string, maxPacket, ops, digests, dups, holds int, flag bool) gw.Params {
	return gw.Params{Name: name, MaxPacket: maxPacket, Ops: ops, Digests: digests, Dups: dups, Holds: holds, Flag: flag}
}

func P4(n, digests, dups, holds, sweeps, suspects int, crash bool) gw.Params {
	return gw.Params{Name: "S4", N: n, Digests: digests, Dups: dups, Holds: holds, Sweeps: sweeps, Suspects: suspects, Flag: crash}
}

// Datagram sizes for the ids/addresses used by the worlds (measured with the
// real encoders): header 42 B, digest entry 41 B, per-node delta header 40 B,
// one-character entry 43 B, compaction marker 59 B.
//   125: digest of 2; one small entry per delta (marker does not fit: F1-like)
//   130: digest of 3 truncated to 2
//   145: digest of 2; one small entry or one marker per delta
//   165: digest of 3; one entry per delta; a second node header fits empty
//   170: digest of 3; two small entries per delta
//   210: two entries of two different nodes
//  1400: default, nothing truncates

func stateJobs(quick bool) []gossipJob {
	if quick {
		return []gossipJob{
			{P: P("S1", 165, 2, 3, 1, -1, false), Need: []string{"RelayLearned", "TruncatedDeltas", "StaleDiscarded"}},
			{P: P("S1", 170, 3, 4, 1, 1, false), Need: []string{"RelayLearned", "TruncatedDeltas"}},
			{P: P("S2", 145, 3, 3, 1, -1, false), Need: []string{"MarkersApplied", "TruncatedDeltas"}},
			{P: P("S2", 145, 5, 4, 1, 1, false), Need: []string{"MarkersApplied", "CompactOnlyDel"}},
			{P: P("S2", 165, 4, 3, 0, 1, true), Need: []string{"MarkersApplied", "RelayLearned"}},
			{P: P("S3", 165, 2, 2, 0, 1, false), Need: []string{"TruncatedDeltas"}},
			{P: P("S5", 130, 2, 3, 0, 1, false), Need: []string{"TruncatedDigests"}},
			{P: P("S8", 1400, 3, 3, 0, 1, false), Need: []string{"LeavesSeen", "StaleDiscarded"}},
			{P: P("S9", 170, 3, 3, 0, 1, false), Need: []string{"TruncatedDeltas"}},
			{P: P("S10", 1400, 2, 2, 0, 0, false)},
			{P: P("S11", 200, 3, 3, 0, 1, false), Need: []string{"TruncatedDeltas"}},
			{P: P("S12", 1400, 3, 3, 0, 1, false)},
			{P: P("S2", 1400, 4, 3, 0, 1, false), Need: []string{"MarkersApplied"}},
		}
	}
	d := sec(120)
	return []gossipJob{
		{P: P("S1", 165, 3, 4, 1, -1, false), Deadline: d, Need: []string{"RelayLearned", "TruncatedDeltas", "StaleDiscarded"}},
		{P: P("S1", 170, 4, 5, 2, 2, false), Deadline: d, Need: []string{"RelayLearned", "TruncatedDeltas"}},
		{P: P("S1", 1400, 4, 5, 2, 2, false), Deadline: d, Need: []string{"RelayLearned"}},
		{P: P("S2", 145, 4, 4, 1, -1, false), Deadline: d, Need: []string{"MarkersApplied", "TruncatedDeltas"}},
		{P: P("S2", 145, 6, 5, 2, 2, false), Deadline: d, Need: []string{"MarkersApplied", "CompactOnlyDel"}},
		{P: P("S2", 1400, 6, 5, 2, 2, false), Deadline: d, Need: []string{"MarkersApplied"}},
		{P: P("S2", 165, 5, 5, 1, 2, true), Deadline: d, Need: []string{"MarkersApplied", "RelayLearned"}},
		{P: P("S3", 165, 2, 3, 1, 1, false), Deadline: d, Need: []string{"TruncatedDeltas"}},
		{P: P("S3", 210, 2, 3, 0, 2, false), Deadline: d, Need: []string{"TruncatedDeltas"}},
		{P: P("S5", 130, 3, 4, 1, 2, false), Deadline: d, Need: []string{"TruncatedDigests"}},
		{P: P("S5", 1400, 3, 4, 1, 2, false), Deadline: d},
		{P: P("S8", 1400, 5, 4, 1, 2, false), Deadline: d, Need: []string{"LeavesSeen", "StaleDiscarded"}},
		{P: P("S8", 145, 4, 4, 1, 2, false), Deadline: d, Need: []string{"LeavesSeen", "TruncatedDeltas"}},
		{P: P("S9", 170, 4, 4, 1, 2, false), Deadline: d, Need: []string{"TruncatedDeltas"}},
		{P: P("S10", 1400, 3, 3, 1, 1, false), Deadline: d},
		{P: P("S12", 1400, 4, 4, 1, 1, false), Deadline: d},
	}
}

func init() {
	register("C02", func(args []string) int {
		run := evid.NewRun("C02", "model_checking")
		runGossip(run, "C02", stateJobs(!run.Thorough()))
		// "never loses": the view of an owner that is alive and heard from
		// survives suspicion, recovery and the expiry sweeps (real detector on a
		// harness clock, every event sequence of the stated depth)
		c11DetectorLoop(run, "C02")
		run.Assume("alphabet: keys {a,b}, values {1,2}, 2-3 nodes; bounds per scenario in coverage.scenarios")
		return run.Finish()
	})
	register("C14", func(args []string) int {
		run := evid.NewRun("C14", "model_checking")
		jobs := stateJobs(!run.Thorough())
		if run.Thorough() {
			jobs = append(jobs, gossipJob{P: P4(3, 3, 0, 1, 2, 2, true), Deadline: sec(120), Need: []string{"LeavesSeen", "Unreachables", "Relearned"}})
			jobs = append(jobs, gossipJob{P: P("S6", 165, 3, 3, 0, 1, true), Deadline: sec(120), Need: []string{"LeavesSeen"}})
		} else {
			jobs = jobs[1:] // the largest job is left to C02 and the thorough tier
			jobs = append(jobs, gossipJob{P: P4(3, 2, 0, 1, 1, 1, true), Need: []string{"LeavesSeen", "Unreachables", "Relearned"}})
		}
		runGossip(run, "C14", jobs)
		// the real detector in the loop: reachable/unreachable/expired
		// notifications fold to the flags of the view after every event
		c11DetectorLoop(run, "C14")
		schedPass(run)
		return run.Finish()
	})
	register("C03", func(args []string) int {
		run := evid.NewRun("C03", "model_checking")
		var jobs []gossipJob
		if !run.Thorough() {
			jobs = []gossipJob{
				{P: P("S1", 165, 2, 3, 0, 1, false), Need: []string{"ClosureDiverged"}},
				{P: P("S1", 170, 3, 3, 0, 1, false), Need: []string{"ClosureDiverged"}},
				{P: P("S2", 145, 4, 3, 0, 1, false), Need: []string{"ClosureDiverged", "MarkersApplied"}},
				{P: P("S2", 165, 4, 3, 0, 1, true), Need: []string{"ClosureDiverged"}},
				{P: P("S3", 165, 2, 2, 0, 1, false), Need: []string{"ClosureDiverged"}},
				{P: P("S5", 130, 2, 3, 0, 1, false), Need: []string{"ClosureDiverged", "TruncatedDigests"}},
				{P: P("S7", 165, 3, 2, 0, 1, false)},
				{P: P("S8", 1400, 3, 3, 0, 1, false), Need: []string{"ClosureDiverged"}},
				{P: P("S9", 170, 3, 3, 0, 1, false), Need: []string{"ClosureDiverged", "TruncatedDeltas"}},
				// a datagram exactly as large as the maximum packet size
				{P: P("S11", 200, 3, 3, 0, 1, false), Need: []string{"ClosureDiverged", "TruncatedDeltas"}},
				// membership: a live node that was suspected and swept by a peer is
				// found again and its state converges like everybody else's
				{P: P4(3, 2, 0, 0, 1, 1, false), Need: []string{"ClosureDiverged", "Unreachables"}},
				// ... also when nobody else is left to re-introduce it (two nodes; three
				// nodes where both others swept it)
				{P: P4(2, 2, 0, 0, 1, 1, false), Need: []string{"ClosureDiverged", "Unreachables"}},
				{P: P4(3, 1, 0, 0, 2, 2, false), Need: []string{"ClosureDiverged", "Unreachables"}},
			}
		} else {
			d := sec(120)
			jobs = []gossipJob{
				{P: P("S1", 165, 3, 4, 1, -1, false), Deadline: d, Need: []string{"ClosureDiverged"}},
				{P: P("S1", 170, 4, 5, 1, 2, false), Deadline: d, Need: []string{"ClosureDiverged"}},
				{P: P("S2", 145, 5, 4, 1, 2, false), Deadline: d, Need: []string{"ClosureDiverged", "MarkersApplied"}},
				{P: P("S2", 165, 5, 4, 1, 2, true), Deadline: d, Need: []string{"ClosureDiverged"}},
				{P: P("S3", 165, 2, 3, 0, 1, false), Deadline: d, Need: []string{"ClosureDiverged"}},
				{P: P("S3", 210, 2, 3, 0, 2, false), Deadline: d, Need: []string{"ClosureDiverged"}},
				{P: P("S5", 130, 3, 4, 0, 2, false), Deadline: d, Need: []string{"ClosureDiverged", "TruncatedDigests"}},
				{P: P("S7", 165, 3, 3, 0, 2, false), Deadline: d},
				{P: P("S8", 1400, 4, 4, 0, 2, false), Deadline: d, Need: []string{"ClosureDiverged"}},
				{P: P("S9", 170, 4, 4, 0, 2, false), Deadline: d, Need: []string{"ClosureDiverged", "TruncatedDeltas"}},
				{P: P4(3, 3, 0, 1, 1, 1, false), Deadline: d, Need: []string{"ClosureDiverged", "Unreachables"}},
				{P: P4(2, 3, 0, 1, 1, 1, false), Deadline: d, Need: []string{"ClosureDiverged", "Unreachables"}},
				{P: P4(3, 2, 0, 0, 2, 2, false), Deadline: d, Need: []string{"ClosureDiverged", "Unreachables"}},
			}
		}
		runGossip(run, "C03", jobs)
		// the closure assumes the periodic task keeps initiating exchanges with
		// live AND unreachable peers: check the real gossipRound for every
		// combination of peer classes
		cases, probs := gw.CheckGossipRound()
		for _, p := range probs {
			run.Violation("C03", "gossip-round-skips-peer-class", p, map[string]any{"engine": "E1-round", "problem": p})
		}
		run.Set("gossip_round_cases", cases)
		// what E1 cannot reach (the receive loop and the sockets): real gossip.New
		// instances on loopback (real_nodes.go)
		rn, rfails := realNodeScenarios()
		for _, f := range rfails {
			run.Violation("C03", f[0], f[1], map[string]any{"engine": "real-nodes", "scenario": f[0]})
		}
		run.Set("real_node_scenarios", rn)
		run.Assume("fair orders enumerated by the closure: all ordered pairs per round, rotated and reversed between rounds, digest order rotated; not every fair schedule")
		return run.Finish()
	})
	register("C11", func(args []string) int {
		run := evid.NewRun("C11", "model_checking")
		var jobs []gossipJob
		if !run.Thorough() {
			jobs = []gossipJob{
				{P: P4(3, 2, 0, 1, 2, 1, true), Need: []string{"LeavesSeen", "Unreachables", "Relearned"}},
				{P: P("S6", 165, 2, 3, 0, 1, true), Need: []string{"LeavesSeen", "Unreachables"}},
				// the leaver keeps compacting after it left (periodic task)
				{P: gw.Params{Name: "S4", N: 3, Digests: 2, Holds: 0, Ops: 4}, Need: []string{"LeavesSeen"}},
			}
		} else {
			d := sec(180)
			jobs = []gossipJob{
				{P: gw.Params{Name: "S4", N: 3, Digests: 3, Holds: 1, Ops: 4}, Deadline: d, Need: []string{"LeavesSeen"}},
				{P: P4(3, 3, 1, 1, 2, 2, true), Deadline: d, Need: []string{"LeavesSeen", "Unreachables", "Relearned"}},
				{P: P4(3, 4, 0, -1, 2, 1, true), Deadline: d, Need: []string{"LeavesSeen", "Unreachables", "Relearned"}},
				{P: P4(4, 2, 0, 1, 2, 1, true), Deadline: d, Need: []string{"LeavesSeen", "Unreachables", "Relearned"}},
				{P: P("S6", 165, 3, 3, 0, 1, true), Deadline: d, Need: []string{"LeavesSeen", "Unreachables"}},
			}
		}
		runGossip(run, "C11", jobs)
		c11DetectorLoop(run, "C11")
		// a restarted node keeps its id: what peers remember of the previous
		// incarnation never declares the new one left (seq_c11_self.go)
		run.Set("own_identity_cases", c11OwnIdentity(run, "C11"))
		// "restored when heard from again" presupposes that a flagged node is
		// still spoken to: the real gossipRound, every combination of peer classes
		cases, probs := gw.CheckGossipRound()
		for _, p := range probs {
			if strings.Contains(p, "unreachable") {
				run.Violation("C11", "unreachable-peer-never-probed", p, map[string]any{"engine": "E1-round", "problem": p})
			}
		}
		run.Set("gossip_round_cases", cases)
		schedPass(run)
		return run.Finish()
	})
	register("C04", func(args []string) int {
		run := evid.NewRun("C04", "model_checking")
		var jobs []gossipJob
		if !run.Thorough() {
			jobs = []gossipJob{
				{P: P("S6", 1400, 3, 3, 0, 1, false), Need: []string{"RelayLearned", "MarkersApplied"}},
				{P: P("S6", 165, 3, 3, 0, 1, false), Need: []string{"RelayLearned", "TruncatedDeltas"}},
				{P: P("S6", 165, 2, 3, 0, 1, true), Need: []string{"LeavesSeen", "Unreachables", "Relearned"}},
				{P: P("S6", 1400, 3, 2, 0, 0, true), Need: []string{"LeavesSeen"}},
				// endpoint ids containing ':' (size 1401 = the S6y variant)
				{P: P("S6", 1401, 3, 3, 0, 1, false), Need: []string{"RelayLearned"}},
				// endpoint ids of different lengths (negative size = the S6x variant)
				{P: P("S6", -200, 3, 3, 0, 1, false), Need: []string{"TruncatedDeltas", "RelayLearned"}},
				{P: P("S6", -230, 3, 3, 0, 1, false), Need: []string{"TruncatedDeltas", "RelayLearned"}},
				// four owner operations: a compaction with a live endpoint newer than the newest tombstone
				// (dups=1: also a duplicated / late datagram after the owner compacted)
				{P: P("S6", 1400, 4, 3, 1, 1, false), Need: []string{"RelayLearned", "MarkersApplied"}},
			}
		} else {
			d := sec(180)
			jobs = []gossipJob{
				{P: P("S6", 1400, 5, 4, 1, 2, false), Deadline: d, Need: []string{"RelayLearned", "MarkersApplied", "CompactOnlyDel"}},
				{P: P("S6", 165, 4, 4, 1, 2, false), Deadline: d, Need: []string{"RelayLearned", "TruncatedDeltas"}},
				{P: P("S6", 165, 3, 3, 0, -1, false), Deadline: d, Need: []string{"RelayLearned", "TruncatedDeltas"}},
				{P: P("S6", -200, 4, 4, 0, 1, false), Deadline: d, Need: []string{"RelayLearned", "TruncatedDeltas"}},
				{P: P("S6", -230, 4, 4, 0, 1, false), Deadline: d, Need: []string{"RelayLearned", "TruncatedDeltas"}},
				{P: P("S6", 165, 3, 3, 0, 1, true), Deadline: d, Need: []string{"LeavesSeen", "Unreachables", "Relearned"}},
				{P: P("S6", 1400, 4, 3, 0, 1, true), Deadline: d, Need: []string{"LeavesSeen", "Unreachables", "Relearned"}},
			}
		}
		runGossip(run, "C04", jobs)
		// the routing table is fed by notifications issued by concurrent
		// handlers: programs L, G and H under every schedule up to the bound
		schedPass(run)
		return run.Finish()
	})
}
