package main

import (
	"fmt"
	"io"
	"net/http"

	"verifharness/internal/e4"
)

// abortMidBody asks the upstream to send 3000 bytes of a chunked body and
// then cut its connection. Whatever the client gets, it must not look like a
// complete response: reading the body has to end in an error.
func abortMidBody(url, host string) (sig, msg string) {
	req, _ := http.NewRequest("GET", url, nil)
	if host != "" {
		req.Host = host
	}
	req.Header.Set("X-Verif-Shape", "abort-mid-body")
	req.Header.Set("X-Verif-Id", "abort")
	resp, err := e4.Client().Do(req)
	if err != nil {
		return "", "" // the client was told something went wrong: fine
	}
	defer resp.Body.Close()
	b, rerr := io.ReadAll(resp.Body)
	if resp.StatusCode >= 500 {
		return "", "" // a gateway error: fine
	}
	if rerr == nil {
		return "truncated-response-presented-as-complete", fmt.Sprintf("the upstream's connection was cut after 3000 bytes of a chunked body; the client received status %d and a well-formed, complete-looking body of %d bytes", resp.StatusCode, len(b))
	}
	return "", ""
}
