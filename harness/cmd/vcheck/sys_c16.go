package main

import (
	"context"
	"encoding/json"
	"fmt"
	"io"
	"net"
	"net/http"
	"os"
	"sort"
	"strings"
	"sync"
	"time"

	"github.com/andydunstall/yamux"
	"github.com/gorilla/websocket"

	"github.com/andydunstall/piko/pkg/auth"
	pikows "github.com/andydunstall/piko/pkg/websocket"
	"github.com/andydunstall/piko/server/config"
	"verifharness/internal/e4"
	"verifharness/internal/evid"
)

// C16: upstreams are registered exactly while connected; expiry ends
// connections. Real server; upstream connections are either real
// client.Listeners or harness-held yamux clients (so that the harness decides
// how and when each one ends and nothing reconnects behind its back).

var c16Endings = []string{"client-shutdown", "goaway-then-close", "goaway-request-then-close", "abrupt-tcp-close", "server-shed", "token-expiry"}

type c16Seq struct {
	Endpoints []string `json:"endpoints"` // endpoint of each upstream
	Endings   []string `json:"endings"`   // how each upstream ends
	Order     []int    `json:"order"`     // the order in which they are ended
	InFlight  bool     `json:"request_in_flight"`
	Final     string   `json:"final"` // "" | server-shutdown
	// ShutdownAfter > 0: the server is shut down after that many endings, with
	// the remaining upstreams still connected (their planned endings never happen)
	ShutdownAfter int `json:"shutdown_after,omitempty"`
}

// rawUpstream is a harness-held upstream connection: websocket + yamux client
// serving the stamp protocol on accepted streams.
type rawUpstream struct {
	ep     string
	name   string
	ws     *websocket.Conn
	sess   *yamux.Session
	closed chan struct{} // accept loop ended
	endAt  time.Time
	expiry time.Time
	mu     sync.Mutex
}

func dialRaw(addr, ep, name, token string) (*rawUpstream, error) {
	return dialRawWith(addr, ep, name, token, nil)
}

// dialRawWith: serve handles every accepted stream (nil = stamp protocol).
func dialRawWith(addr, ep, name, token string, serve func(net.Conn)) (*rawUpstream, error) {
	h := http.Header{}
	if token != "" {
		h.Set("Authorization", "Bearer "+token)
	}
	return dialRawHdr(addr, ep, name, h, serve)
}

// dialRawHdr: the upstream handshake with the given headers (token, tenant).
func dialRawHdr(addr, ep, name string, h http.Header, serve func(net.Conn)) (*rawUpstream, error) {
	d := &websocket.Dialer{HandshakeTimeout: 20 * time.Second}
	ws, resp, err := d.Dial("ws://"+addr+"/piko/v1/upstream/"+ep, h)
	if err != nil {
		st := 0
		if resp != nil {
			st = resp.StatusCode
		}
		return nil, fmt.Errorf("dial upstream: %v (status %d)", err, st)
	}
	cfg := yamux.DefaultConfig()
	cfg.LogOutput = io.Discard
	cfg.EnableKeepAlive = false
	sess, err := yamux.Client(pikows.New(ws), cfg)
	if err != nil {
		return nil, err
	}
	r := &rawUpstream{ep: ep, name: name, ws: ws, sess: sess, closed: make(chan struct{})}
	su := &e4.StampUpstream{Endpoint: ep, Name: name, Node: "-", Handler: http.HandlerFunc(func(w http.ResponseWriter, q *http.Request) {
		if d := q.Header.Get("X-Verif-Sleep"); d != "" {
			dur, _ := time.ParseDuration(d)
			time.Sleep(dur)
		}
		_, _ = w.Write([]byte("stamp " + ep + " " + name))
	})}
	go func() {
		defer close(r.closed)
		for {
			c, err := sess.Accept()
			if err != nil {
				r.mu.Lock()
				r.endAt = time.Now()
				r.mu.Unlock()
				return
			}
			if serve != nil {
				go serve(c)
			} else {
				go su.ServeConn(c)
			}
		}
	}()
	return r, nil
}

type c16World struct {
	node *e4.FullNode
}

func (w *c16World) adminJSON(path string, v any) error {
	resp, err := e4.Client().Get("http://" + w.node.AdminAddr() + path)
	if err != nil {
		return err
	}
	defer resp.Body.Close()
	if resp.StatusCode != 200 {
		return fmt.Errorf("admin %s: status %d", path, resp.StatusCode)
	}
	return json.NewDecoder(resp.Body).Decode(v)
}

// observe returns registry, routing table, published gossip counts and the
// number of open sessions.
func (w *c16World) observe() (reg, rt, pub string, sessions int, err error) {
	var regm map[string]int
	if err = w.adminJSON("/status/upstream/endpoints", &regm); err != nil {
		return
	}
	var gs struct {
		Entries []struct {
			Key     string `json:"key"`
			Value   string `json:"value"`
			Deleted bool   `json:"deleted"`
		}
	}
	if err = w.adminJSON("/status/gossip/nodes/"+w.node.ID, &gs); err != nil {
		return
	}
	pubm := map[string]int{}
	for _, e := range gs.Entries {
		if strings.HasPrefix(e.Key, "endpoint:") && !e.Deleted {
			var n int
			fmt.Sscanf(e.Value, "%d", &n)
			pubm[strings.TrimPrefix(e.Key, "endpoint:")] = n
		}
	}
	return countsStr(regm), countsStr(w.node.State().LocalNode().Endpoints), countsStr(pubm), w.node.Srv.VUpstreamServer().VOpenSessions(), nil
}

func (w *c16World) waitFor(want map[string]int, sessions int) (string, bool) {
	ws := countsStr(want)
	var last string
	ok := e4.WaitFor(15*time.Second, func() bool {
		reg, rt, pub, ss, err := w.observe()
		last = fmt.Sprintf("registry {%s}, routing table {%s}, published {%s}, open sessions %d (err %v)", reg, rt, pub, ss, err)
		return err == nil && reg == ws && rt == ws && pub == ws && ss == sessions
	})
	return last, ok
}

func (w *c16World) request(ep string, hdr map[string]string) e4.Result {
	return e4.DoHTTP(w.node.ProxyAddr(), e4.Addressing{Mode: "header", Endpoint: ep, Extra: hdr, Token: "Bearer " + c16Token(0), TokenHdr: "Authorization"})
}

func c16Token(expIn int) string {
	d := e4.TokenDesc{Alg: "HS256", Key: "configured", Tamper: "none", Exp: "future", Nbf: "absent", Aud: "absent", Iss: "absent", ExpIn: expIn}
	return d.Mint()
}

func runC16(s c16Seq) (sig, msg string) {
	nd, err := e4.StartNode(nil, func(c *config.Config) {
		ac := auth.Config{HMACSecretKey: string(e4.Keys().HMAC)}
		c.Upstream.Auth, c.Proxy.Auth = ac, ac
		c.GracePeriod = 3 * time.Second
	})
	if err != nil {
		evid.Fatal("start node: %v", err)
	}
	w := &c16World{node: nd}
	stopped := false
	defer func() {
		if !stopped {
			nd.Stop()
		}
	}()
	desc := fmt.Sprintf("%+v", s)
	// connect everything; expiring tokens get 3s
	ups := make([]*rawUpstream, len(s.Endpoints))
	connected := map[string]int{}
	for i, ep := range s.Endpoints {
		tok := c16Token(0)
		var exp time.Time
		if s.Endings[i] == "token-expiry" {
			tok = c16Token(3)
			exp = time.Now().Add(3 * time.Second).Truncate(time.Second)
		}
		u, err := dialRaw(nd.UpstreamAddr(), ep, fmt.Sprintf("u%d", i), tok)
		if err != nil {
			return "connect-failed", desc + ": " + err.Error()
		}
		u.expiry = exp
		ups[i] = u
		connected[ep]++
	}
	defer func() {
		for _, u := range ups {
			u.sess.Close()
		}
	}()
	if last, ok := w.waitFor(connected, len(ups)); !ok {
		return "not-registered-while-connected", fmt.Sprintf("%s: after connecting %v: %s", desc, connected, last)
	}
	// every connected upstream is reachable
	for _, ep := range s.Endpoints {
		if r := w.request(ep, nil); r.Status != 200 || r.Endpoint != ep {
			return "connected-upstream-unreachable", fmt.Sprintf("%s: request for %s -> %s", desc, ep, r)
		}
	}
	open := len(ups)
	for step, i := range s.Order {
		if s.ShutdownAfter > 0 && step >= s.ShutdownAfter-1 && s.Final == "server-shutdown" && step == s.ShutdownAfter-1 {
			break // the rest is ended by the server shutting down
		}
		u := ups[i]
		if u.markedEnded() {
			continue // its token expired together with an earlier one's
		}
		var inflight chan e4.Result
		if s.InFlight {
			inflight = make(chan e4.Result, 1)
			go func() { inflight <- w.request(u.ep, map[string]string{"X-Verif-Sleep": "300ms"}) }()
			time.Sleep(50 * time.Millisecond)
		}
		switch s.Endings[i] {
		case "client-shutdown":
			u.sess.Close()
		case "goaway-then-close":
			_ = u.sess.GoAway()
			time.Sleep(20 * time.Millisecond)
			u.sess.Close()
		case "goaway-request-then-close":
			// the proxy sees ErrGone and removes the upstream itself, then the
			// upstream handler removes it again when the connection closes
			_ = u.sess.GoAway()
			time.Sleep(20 * time.Millisecond)
			for k := 0; k < connected[u.ep]+1; k++ {
				_ = w.request(u.ep, nil)
			}
			u.sess.Close()
		case "abrupt-tcp-close":
			_ = u.ws.NetConn().Close()
		case "server-shed":
			// the server picks the session; find out which one it closed
			nd.Srv.VUpstreamServer().VShed(1)
			var victim *rawUpstream
			e4.WaitFor(10*time.Second, func() bool {
				for _, x := range ups {
					select {
					case <-x.closed:
						if !x.markedEnded() {
							victim = x
							return true
						}
					default:
					}
				}
				return false
			})
			if victim == nil {
				return "shed-closed-nothing", desc + ": shedSessions(1) closed no upstream connection"
			}
			if victim != u {
				// the server chose another connection: it takes this slot, the
				// spared one inherits the victim's slot and planned ending
				for j := range ups {
					if ups[j] == victim {
						ups[i], ups[j] = ups[j], ups[i]
					}
				}
			}
			u = victim
		case "token-expiry":
			if u.expiry.IsZero() {
				// slot inherited after a shed: this connection has no expiring token
				u.sess.Close()
				break
			}
			select {
			case <-u.closed:
			case <-time.After(15 * time.Second):
				return "expired-token-connection-kept", fmt.Sprintf("%s: upstream %d still connected 12s after its token expired", desc, i)
			}
			u.mu.Lock()
			at := u.endAt
			u.mu.Unlock()
			if at.Before(u.expiry.Add(-5 * time.Millisecond)) {
				return "closed-before-expiry", fmt.Sprintf("%s: upstream %d closed at %s, token expires %s", desc, i, at.Format("15:04:05.000"), u.expiry.Format("15:04:05.000"))
			}
			// other tokens that expire at the same moment end their connections now too
			for _, x := range ups {
				if x == u || x.markedEnded() || x.expiry.IsZero() || x.expiry.After(u.expiry.Add(time.Second)) {
					continue
				}
				select {
				case <-x.closed:
				case <-time.After(15 * time.Second):
					return "expired-token-connection-kept", fmt.Sprintf("%s: upstream %s still connected long after its token expired", desc, x.name)
				}
				x.setEnded()
				connected[x.ep]--
				open--
			}
		}
		u.setEnded()
		connected[u.ep]--
		open--
		if inflight != nil {
			select {
			case <-inflight:
			case <-time.After(40 * time.Second):
				return "in-flight-request-hung", desc + ": the request in flight never returned"
			}
		}
		if last, ok := w.waitFor(connected, open); !ok {
			return "registration-differs-from-connected", fmt.Sprintf("%s: after ending upstream %s (%s) the still-connected set is {%s} but: %s", desc, u.name, s.Endings[i], countsStr(connected), last)
		}
		// remaining upstreams keep serving; ended endpoints without siblings 502
		for ep, n := range connected {
			r := w.request(ep, nil)
			if n > 0 && (r.Status != 200 || r.Endpoint != ep) {
				return "remaining-upstream-unreachable", fmt.Sprintf("%s: after ending %s, request for %s (still %d connected) -> %s", desc, u.name, ep, n, r)
			}
			if n == 0 && r.Status != 502 {
				return "ended-upstream-still-routable", fmt.Sprintf("%s: after ending %s, request for %s (none connected) -> %s", desc, u.name, ep, r)
			}
		}
	}
	if s.Final == "server-shutdown" {
		if s.ShutdownAfter == 1 {
			// somebody else's plain HTTP connection on the upstream port is stuck in
			// the middle of its request: the graceful part of the shutdown cannot
			// finish within the grace period; the upstream connections end anyway
			if sc, err := net.DialTimeout("tcp", nd.UpstreamAddr(), 5*time.Second); err == nil {
				_, _ = sc.Write([]byte("GET /piko/v1/upstream/other HTTP/1.1\r\nHost: stalled\r\n"))
				defer sc.Close()
			}
		}
		done := make(chan struct{})
		go func() { nd.Stop(); close(done) }()
		select {
		case <-done:
			stopped = true
		case <-time.After(30 * time.Second):
			return "shutdown-hung", desc + ": server shutdown did not return"
		}
		for _, u := range ups {
			select {
			case <-u.closed:
			case <-time.After(10 * time.Second):
				return "session-survived-shutdown", fmt.Sprintf("%s: upstream %s still open after server shutdown", desc, u.name)
			}
		}
		if n := nd.Srv.VUpstreamServer().VOpenSessions(); n != 0 {
			return "session-leak-after-shutdown", fmt.Sprintf("%s: %d sessions still tracked after shutdown", desc, n)
		}
		if eps := countsStr(nd.State().LocalNode().Endpoints); eps != "" {
			return "advertised-after-shutdown", fmt.Sprintf("%s: still advertising {%s} after shutdown", desc, eps)
		}
	}
	return "", ""
}

func (u *rawUpstream) markedEnded() bool {
	u.mu.Lock()
	defer u.mu.Unlock()
	return u.name == ""
}

func (u *rawUpstream) setEnded() {
	u.mu.Lock()
	u.name = ""
	u.mu.Unlock()
}

// disable-disconnect-on-expiry: the connection outlives the token
func runC16NoDisconnect() (sig, msg string) {
	// the option is honoured whatever kind of key verifies the token
	for _, keys := range []string{"hmac", "jwks"} {
		if sig, msg = runC16NoDisconnectWith(keys); sig != "" {
			return sig, "keys from " + keys + ": " + msg
		}
	}
	return "", ""
}

func runC16NoDisconnectWith(keys string) (sig, msg string) {
	tok := c16Token(2)
	ac := auth.Config{HMACSecretKey: string(e4.Keys().HMAC), DisableDisconnectOnExpiry: true}
	if keys == "jwks" {
		dir, err := os.MkdirTemp("", "verif-c16-jwks")
		if err != nil {
			evid.Fatal("tmp: %v", err)
		}
		defer os.RemoveAll(dir)
		ac = auth.Config{DisableDisconnectOnExpiry: true}
		ac.JWKS.Endpoint = "file://" + e4.WriteJWKS(dir)
		d := e4.TokenDesc{Alg: "RS256", Key: "configured", Tamper: "none", Exp: "future", Nbf: "absent", Aud: "absent", Iss: "absent", ExpIn: 2}
		tok = d.Mint()
	}
	nd, err := e4.StartNode(nil, func(c *config.Config) {
		c.Upstream.Auth = ac
	})
	if err != nil {
		evid.Fatal("start node: %v", err)
	}
	defer nd.Stop()
	u, err := dialRaw(nd.UpstreamAddr(), "e1", "u0", tok)
	if err != nil {
		return "connect-failed", err.Error()
	}
	defer u.sess.Close()
	select {
	case <-u.closed:
		return "closed-despite-disable-disconnect-on-expiry", "the connection was closed although disconnect-on-expiry is disabled"
	case <-time.After(4 * time.Second):
	}
	if nd.State().LocalNode().Endpoints["e1"] != 1 {
		return "deregistered-despite-disable-disconnect-on-expiry", "the upstream is no longer registered after its token expired"
	}
	return "", ""
}

func perms(n int) [][]int {
	if n == 1 {
		return [][]int{{0}}
	}
	var out [][]int
	for _, p := range perms(n - 1) {
		for i := 0; i <= len(p); i++ {
			q := append(append(append([]int{}, p[:i]...), n-1), p[i:]...)
			out = append(out, q)
		}
	}
	return out
}

func c16Sequences(full bool) []c16Seq {
	var out []c16Seq
	add := func(eps []string) {
		k := len(eps)
		var rec func(i int, cur []string)
		rec = func(i int, cur []string) {
			if i == k {
				for _, ord := range perms(k) {
					for _, inflight := range []bool{false, true} {
						final := ""
						if (len(out)+1)%3 == 0 {
							final = "server-shutdown"
						}
						out = append(out, c16Seq{Endpoints: eps, Endings: append([]string(nil), cur...), Order: ord, InFlight: inflight, Final: final})
						if final == "server-shutdown" && !inflight {
							// the same sequence cut short: shut down while 1..k upstreams are still connected
							for after := 1; after <= k; after++ {
								out = append(out, c16Seq{Endpoints: eps, Endings: append([]string(nil), cur...), Order: ord, Final: final, ShutdownAfter: after})
							}
						}
					}
				}
				return
			}
			for _, e := range c16Endings {
				rec(i+1, append(cur, e))
			}
		}
		rec(0, nil)
	}
	add([]string{"e1", "e1"})
	add([]string{"e1", "e2"})
	if full {
		add([]string{"e1", "e1", "e2"})
	}
	return out
}

func init() {
	register("C16", func(args []string) int {
		run := evid.NewRun("C16", "fault_enumeration")
		e4.Keys()
		seqs := c16Sequences(run.Thorough())
		if !run.Thorough() {
			// quick: every pair of endings on a shared endpoint in both orders,
			// without the slow expiry x expiry combinations
			var q []c16Seq
			for i, s := range seqs {
				exp := 0
				for _, e := range s.Endings {
					if e == "token-expiry" {
						exp++
					}
				}
				if exp == 2 || (exp == 1 && i%2 == 1) {
					continue
				}
				if s.Endpoints[1] == "e2" && i%3 != 0 {
					continue
				}
				q = append(q, s)
			}
			seqs = q
		}
		var mu sync.Mutex
		evals := 0
		distinct := map[string]bool{}
		// the silent network drop takes as long as the server's keep-alive needs
		// (about 40s): it runs alongside everything else
		silent := make(chan [2]string, 1)
		go func() {
			s, m := runC16SilentDrop()
			silent <- [2]string{s, m}
		}()
		ch := make(chan c16Seq, 16)
		var wg sync.WaitGroup
		for k := 0; k < 12; k++ {
			wg.Add(1)
			go func() {
				defer wg.Done()
				for s := range ch {
					sig, msg := runC16(s)
					if sig != "" {
						// a failed liveness wait is re-run before it is believed
						confirmed := 0
						for r := 0; r < 2; r++ {
							if s2, _ := runC16(s); s2 == sig {
								confirmed++
							}
						}
						if confirmed == 0 {
							sig = ""
						}
					}
					mu.Lock()
					evals++
					distinct[fmt.Sprintf("%v/%v/%v", s.Endpoints, s.Endings, s.Order)] = true
					if evals%37 == 1 {
						run.Sample(s)
					}
					mu.Unlock()
					if sig != "" {
						run.Violation("C16", sig, msg, map[string]any{"engine": "E4-C16", "sequence": s})
					}
				}
			}()
		}
		for _, s := range seqs {
			ch <- s
		}
		close(ch)
		wg.Wait()
		// client-side reconnects and mixed token lifetimes (sys_c16_client.go)
		type job struct {
			name string
			fn   func() (string, string)
			rep  map[string]any
		}
		var jobs []job
		for _, c := range c16ReconnectCases() {
			c := c
			jobs = append(jobs, job{fmt.Sprintf("reconnect/%+v", c), func() (string, string) { return runC16Reconnect(c) }, map[string]any{"engine": "E4-C16", "reconnect": c}})
		}
		for _, c := range c16MixedCases(run.Thorough()) {
			c := c
			jobs = append(jobs, job{fmt.Sprintf("mixed/%+v", c), func() (string, string) { return runC16Mixed(c) }, map[string]any{"engine": "E4-C16", "mixed": c}})
		}
		jch := make(chan job, len(jobs))
		for _, j := range jobs {
			jch <- j
		}
		close(jch)
		for k := 0; k < 12; k++ {
			wg.Add(1)
			go func() {
				defer wg.Done()
				for j := range jch {
					sig, msg := j.fn()
					if sig != "" {
						confirmed := 0
						for r := 0; r < 2; r++ {
							if s2, _ := j.fn(); s2 == sig {
								confirmed++
							}
						}
						if confirmed == 0 {
							sig = ""
						}
					}
					mu.Lock()
					evals++
					distinct[j.name] = true
					mu.Unlock()
					if sig != "" {
						run.Violation("C16", sig, msg, j.rep)
					}
				}
			}()
		}
		wg.Wait()
		if sd := <-silent; sd[0] != "" {
			run.Violation("C16", sd[0], sd[1], map[string]any{"engine": "E4-C16", "silent_drop": true})
		}
		evals++
		distinct["silent-drop"] = true
		run.Set("reconnect_cases", len(c16ReconnectCases()))
		run.Set("mixed_token_cases", len(c16MixedCases(run.Thorough())))
		if sig, msg := runC16NoDisconnect(); sig != "" {
			run.Violation("C16", sig, msg, map[string]any{"engine": "E4-C16", "case": "disable-disconnect-on-expiry"})
		}
		evals++
		run.Set("evaluations", evals)
		run.Set("distinct_nontrivial", len(distinct))
		var ends []string
		ends = append(ends, c16Endings...)
		sort.Strings(ends)
		run.Set("endings", ends)
		run.Set("rule", "one real server per sequence; k upstream connections on shared/distinct endpoints, every assignment of an ending (client close, go-away then close, go-away + proxied request (ErrGone removal) then close, abrupt TCP close, server-side shed, token expiry) in every order, with and without a proxied request in flight, a third ending with server shutdown; after every ending registry == routing table == published gossip entries == still-connected set and open-session count matches; plus real client listeners behind a gate: {1,2} listeners x {Shutdown, Close} x {while connected, while reconnecting during an outage, after a reconnect}; plus every connect order of 2-3 upstreams with tokens {expiring in 3s, no exp claim, far expiry}: exactly the expired ones are closed; plus a connection whose network goes dark without FIN/RST is noticed and deregistered by the server; non-trivial = distinct (endpoints, endings, order)")
		run.Set("exhaustive", run.Thorough())
		run.Assume("schedules inside net/http, yamux and gorilla/websocket are free-running; liveness waits poll for up to 15s and a failure is re-run twice before it is reported")
		fmt.Printf("  C16: sequences=%d distinct=%d\n", evals, len(distinct))
		return run.Finish()
	})
	replayers["E4-C16"] = func(path string) int {
		var doc struct {
			Replay struct {
				Sequence  *c16Seq       `json:"sequence"`
				Reconnect *c16Reconnect `json:"reconnect"`
				Mixed     *c16Mixed     `json:"mixed"`
				SilentDrop bool         `json:"silent_drop"`
			} `json:"replay"`
		}
		readJSON(path, &doc)
		e4.Keys()
		if doc.Replay.Reconnect != nil {
			fmt.Println(runC16Reconnect(*doc.Replay.Reconnect))
			return 0
		}
		if doc.Replay.SilentDrop {
			fmt.Println(runC16SilentDrop())
			return 0
		}
		if doc.Replay.Mixed != nil {
			fmt.Println(runC16Mixed(*doc.Replay.Mixed))
			return 0
		}
		if doc.Replay.Sequence == nil {
			fmt.Println(runC16NoDisconnect())
			return 0
		}
		for i := 0; i < 2; i++ {
			fmt.Println(runC16(*doc.Replay.Sequence))
		}
		return 0
	}
	_ = context.Background
}
