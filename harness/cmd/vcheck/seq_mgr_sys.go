package main

func c05Sys(thorough bool) *mgrSys {
	ups := [][2]string{{"u1", "e1"}, {"u2", "e1"}, {"u3", "e2"}}
	if thorough {
		ups = append(ups, [2]string{"u4", "e1"}, [2]string{"u5", "e2"})
	}
	return &mgrSys{Prop: "C05", Upstreams: ups, Endpoints: []string{"e1", "e2"}, Echo: true}
}

func c15Sys(thorough bool) *mgrSys {
	ups := [][2]string{{"u1", "e1"}, {"u2", "e1"}, {"u3", "e1"}, {"u4", "e2"}}
	if thorough {
		ups = append(ups, [2]string{"u5", "e1"})
	}
	// g1 is learned through gossip; "e5:x" contains the separator of the gossip
	// key ("endpoint:<id>") and has a sibling "e5" that nobody serves
	return &mgrSys{Prop: "C15", Upstreams: ups, Endpoints: []string{"e1", "e2", "e3", "e4", "e5", "e5:x"}, Selects: true,
		Remote: map[string][]string{"r1": {"e1", "e3"}, "r0": {"e2:0", "e4:0"}, "g1": {"e5:x"}}}
}
