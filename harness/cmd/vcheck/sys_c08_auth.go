package main

import (
	"context"
	"fmt"
	"io"
	"net/http"
	"net/url"
	"time"

	"github.com/andydunstall/piko/client"
	"github.com/andydunstall/piko/pkg/auth"
	"github.com/andydunstall/piko/server/config"
	"verifharness/internal/e4"
	"verifharness/internal/evid"
)

// c08Auth: transparency with authentication enabled on the proxy port. The
// piko token travels either in Authorization or in x-piko-authorization
// (which exists so that the client's OWN Authorization header can pass through
// to the upstream); entry node with the upstream (local) or without
// (forwarded over the inter-node hop, where the receiving node authenticates
// the request again). Every combination is served by the upstream, which sees
// the client's own headers unchanged.
func c08Auth(run *evid.Run, evals, nontrivial *int) {
	nodes, err := e4.StartCluster(2, func(i int, c *config.Config) {
		c.Proxy.Auth = auth.Config{HMACSecretKey: string(e4.Keys().HMAC)}
	})
	if err != nil {
		evid.Fatal("auth cluster: %v", err)
	}
	defer func() {
		for _, n := range nodes {
			n.Stop()
		}
	}()
	up := &c08Upstream{last: map[string]*recorded{}}
	u := &client.Upstream{URL: &url.URL{Scheme: "http", Host: nodes[1].UpstreamAddr()}}
	ln, err := u.Listen(context.Background(), "e1")
	if err != nil {
		evid.Fatal("listen: %v", err)
	}
	defer ln.Close()
	go func() { _ = http.Serve(ln, up) }()
	if !e4.WaitFor(20*time.Second, func() bool {
		n, ok := nodes[0].State().Node(nodes[1].ID)
		return ok && n.Endpoints["e1"] == 1
	}) {
		evid.Fatal("auth cluster did not settle")
	}
	tok := e4.ValidFor(e4.KeyConfig{Name: "hmac"}).Mint()
	k := 0
	for entry, route := range []string{"forwarded", "local"} {
		for _, carrier := range []string{"Authorization", "x-piko-authorization"} {
			for _, own := range []string{"", "Basic Y2xpZW50OnNlY3JldA=="} {
				if carrier == "Authorization" && own != "" {
					continue // one header cannot carry both
				}
				k++
				*evals++
				*nontrivial++
				id := fmt.Sprintf("auth-%d", k)
				req, _ := http.NewRequest("POST", "http://"+nodes[entry].ProxyAddr()+"/a/b?x=1", nil)
				req.Host = "e1.piko.test"
				req.Header.Set(carrier, "Bearer "+tok)
				if own != "" {
					req.Header.Set("Authorization", own)
				}
				req.Header.Set("X-Verif-Id", id)
				req.Header.Set("Cookie", "session=abc")
				kind := fmt.Sprintf("auth enabled, %s, piko token in %s, client's own Authorization %q", route, carrier, own)
				resp, err := e4.Client().Do(req)
				for r := 0; r < 3 && err == nil && resp.StatusCode != 200 && !e4.AllActive(nodes); r++ {
					resp.Body.Close()
					e4.WaitAllActive(nodes, 30*time.Second) // membership flapped under load: decide afresh
					resp, err = e4.Client().Do(req)
				}
				if err != nil {
					run.Violation("C08", "no-response", kind+": "+err.Error(), map[string]any{"engine": "E4-C08", "failure_case": kind})
					continue
				}
				body, _ := io.ReadAll(resp.Body)
				resp.Body.Close()
				up.mu.Lock()
				rec := up.last[id]
				up.mu.Unlock()
				switch {
				case resp.StatusCode != 200 || rec == nil:
					run.Violation("C08", "request-not-delivered", fmt.Sprintf("%s: status %d body %q, reached the upstream: %v", kind, resp.StatusCode, body, rec != nil), map[string]any{"engine": "E4-C08", "failure_case": kind})
				case own != "" && rec.Header.Get("Authorization") != own:
					run.Violation("C08", "request-header-changed", fmt.Sprintf("%s: the upstream saw Authorization %q", kind, rec.Header.Get("Authorization")), map[string]any{"engine": "E4-C08", "failure_case": kind})
				case own == "" && carrier == "Authorization" && rec.Header.Get("Authorization") != "Bearer "+tok:
					run.Violation("C08", "request-header-changed", fmt.Sprintf("%s: the upstream saw Authorization %q", kind, rec.Header.Get("Authorization")), map[string]any{"engine": "E4-C08", "failure_case": kind})
				case rec.Header.Get("Cookie") != "session=abc":
					run.Violation("C08", "request-header-changed", fmt.Sprintf("%s: the upstream saw Cookie %q", kind, rec.Header.Get("Cookie")), map[string]any{"engine": "E4-C08", "failure_case": kind})
				}
			}
		}
	}
}
