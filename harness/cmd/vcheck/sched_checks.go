package main

import (
	"fmt"
	"sort"
	"strings"

	"github.com/andydunstall/piko/verifshim/vsync"
	"verifharness/internal/evid"
	"verifharness/internal/sched"
)

type schedReplay struct {
	Engine   string   `json:"engine"`
	Program  string   `json:"program"`
	Schedule []int    `json:"schedule"`
	Trace    []string `json:"trace"`
}

func findProgram(name string) *schedProgram {
	for _, p := range allSchedPrograms() {
		if p.Name == name {
			pp := p
			return &pp
		}
	}
	return nil
}

// sigOf turns the first failure message into a stable signature.
func sigOf(msgs []string) string {
	m := msgs[0]
	if i := strings.Index(m, ":"); i > 0 {
		return m[:i]
	}
	return m
}

// runSched explores the given programs up to the preemption bound and
// attributes failures to `prop`. accept filters which failure classes belong
// to the property (nil = all).
func runSched(run *evid.Run, prop string, progs []schedProgram, bound int, deadlineS int, accept func(sig string) bool) (execs, points int, complete bool) {
	if !vsyncInstrumented() {
		evid.Fatal("scheduler checks need the sched build (sync -> vsync rewrite); no scheduling points were observed")
	}
	complete = true
	var per []map[string]any
	for _, p := range progs {
		for b := 0; b <= bound; b++ {
			if b < bound && bound > 1 && b > 0 {
				continue // iterate 0, then the full bound (the bounds are nested)
			}
			res := sched.Explore(p.Build, sched.Options{Bound: b, Deadline: sec(deadlineS)}, func() string { return *p.outcome })
			fmt.Printf("  %s %s: bound=%d executions=%d points=%d longest=%d complete=%v outcomes=%d %s wall=%.1fs\n", prop, p.Name, b, res.Executions, res.Points, res.MaxPoints, res.Complete, len(res.Outcomes), res.CapHit, res.Wall.Seconds())
			if b == bound {
				execs += res.Executions
				points += res.Points
				if !res.Complete {
					complete = false
				}
				var outs []string
				for o := range res.Outcomes {
					outs = append(outs, o)
				}
				sort.Strings(outs)
				per = append(per, map[string]any{"program": p.Name, "preemption_bound": b, "executions": res.Executions, "scheduling_points": res.Points, "longest_execution": res.MaxPoints, "complete": res.Complete, "cap_hit": res.CapHit, "distinct_outcomes": len(outs), "outcomes": outs, "wall_s": res.Wall.Seconds()})
				if len(res.Failures) == 0 && res.Executions > 0 {
					run.Sample(map[string]any{"program": p.Name, "outcomes": outs})
				}
			}
			for _, f := range res.Failures {
				sig := sigOf(f.Msgs)
				if accept != nil && !accept(sig) {
					continue
				}
				run.Violation(prop, sig, strings.Join(f.Msgs, "; "), schedReplay{"E2", p.Name, f.Schedule, f.Trace})
			}
			if len(res.Failures) > 0 {
				break
			}
		}
	}
	run.Set("sched_programs", per)
	return
}

// vsyncInstrumented: does a mutex of the real code reach the scheduler?
func vsyncInstrumented() bool {
	c := newNodeCore()
	n := 0
	vsync.Run([]func(){func() { _ = c.mgr.Endpoints() }}, 100, func(p *vsync.Point) int { n++; return 0 })
	return n >= 2
}

func init() {
	replayers["E2"] = func(path string) int {
		var doc struct {
			Replay schedReplay `json:"replay"`
		}
		readJSON(path, &doc)
		p := findProgram(doc.Replay.Program)
		if p == nil {
			evid.Fatal("unknown program %s", doc.Replay.Program)
		}
		m1, t1 := sched.Replay(p.Build, doc.Replay.Schedule, 2000)
		m2, t2 := sched.Replay(p.Build, doc.Replay.Schedule, 2000)
		for i, s := range t1 {
			fmt.Printf("%3d %s\n", i, s)
		}
		fmt.Println(strings.Join(m1, "\n"))
		if fmt.Sprint(m1, t1) != fmt.Sprint(m2, t2) {
			evid.Fatal("replay is not deterministic")
		}
		return 0
	}
	register("probe-sched", func(args []string) int {
		run := evid.NewRun("C20", "model_checking")
		b := 2
		if len(args) > 0 && args[0] == "3" {
			b = 3
		}
		e, pts, c := runSched(run, "C20", allSchedPrograms(), b, 600, nil)
		fmt.Println(e, pts, c)
		return 0
	})
}
