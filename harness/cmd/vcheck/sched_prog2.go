package main

import (
	"fmt"
	"sort"
	"strings"
	"time"

	"github.com/andydunstall/piko/pkg/gossip"
	"github.com/andydunstall/piko/server/cluster"
	"github.com/andydunstall/piko/verifshim/vsync"
)

// mirrored: the routing table is the fold of the notifications the gossip
// state issued; at quiescence it must list exactly the nodes of the gossip
// view whose addresses are known, with exactly their live endpoints.
func (c *nodeCore) mirrored() []string {
	var msgs []string
	inView := map[string]bool{}
	for _, md := range c.gs.Nodes() {
		if md.ID == "local" {
			continue
		}
		inView[md.ID] = true
		ns, ok := c.gs.Node(md.ID)
		if !ok {
			continue
		}
		eps := map[string]int{}
		addrs := 0
		for _, e := range ns.Entries {
			if e.Deleted {
				continue
			}
			if e.Key == "proxy_addr" || e.Key == "admin_addr" {
				addrs++
			}
			if strings.HasPrefix(e.Key, "endpoint:") {
				n := 0
				fmt.Sscanf(e.Value, "%d", &n)
				eps[strings.TrimPrefix(e.Key, "endpoint:")] = n
			}
		}
		rn, have := c.cs.Node(md.ID)
		if addrs == 2 && !have {
			msgs = append(msgs, fmt.Sprintf("routing-table-lost-node: %s is in the gossip view (version %d, endpoints {%s}) but missing from the routing table folded from the notifications", md.ID, md.Version, countsStr(eps)))
			continue
		}
		if have {
			if a, b := countsStr(eps), countsStr(rn.Endpoints); a != b {
				msgs = append(msgs, fmt.Sprintf("routing-table-differs-from-view: %s has endpoints {%s} in the gossip view, {%s} in the routing table", md.ID, a, b))
			}
			wantUnreach := md.Unreachable && !md.Left
			if wantUnreach != (rn.Status == cluster.NodeStatusUnreachable) || md.Left != (rn.Status == cluster.NodeStatusLeft) {
				msgs = append(msgs, fmt.Sprintf("routing-table-status-differs-from-view: %s left=%v unreachable=%v in the view, status %s in the routing table", md.ID, md.Left, md.Unreachable, rn.Status))
			}
		}
	}
	for _, n := range c.cs.Nodes() {
		if n.ID != "local" && !inView[n.ID] {
			msgs = append(msgs, "expired-node-in-routing-table: "+n.ID+" is gone from the gossip view but still in the routing table")
		}
	}
	sort.Strings(msgs)
	return msgs
}

func relayedDelta(from, fromAddr, id, addr string, entries ...gossip.Entry) []byte {
	b, err := gossip.VEncodeDelta(gossip.VDeltaHeader{NodeID: from, Addr: fromAddr},
		gossip.VDelta{{ID: id, Addr: addr, Entries: entries}}, 1400)
	if err != nil {
		panic(err)
	}
	return b
}

// progG: the expiry sweep removes a node that a peer still knows, while that
// peer's delta re-introduces it and a request looks its endpoint up.
func progG() schedProgram {
	var last string
	return schedProgram{Name: "G-expiry-vs-rediscovery", outcome: &last, Build: func() ([]func(), func(o *vsync.Outcome) []string) {
		c := newNodeCore()
		c.learnRemote("nY", "10.0.0.2:7000")
		c.learnRemote("nZ", "10.0.0.3:7000", "e2")
		c.fd.Remove("nZ")
		c.fd.ReportWithTimestamp("nZ", time.Now().Add(-2*time.Hour))
		c.gs.UpdateLiveness(float64(gossip.VSuspicionThreshold)) // nZ flagged, expiry armed
		relay := relayedDelta("nY", "10.0.0.2:7000", "nZ", "10.0.0.3:7000",
			gossip.Entry{Key: "proxy_addr", Value: "p-nZ", Version: 1},
			gossip.Entry{Key: "admin_addr", Value: "a-nZ", Version: 2},
			gossip.Entry{Key: "endpoint:e2", Value: "1", Version: 3})
		bodies := []func(){
			func() { c.gs.RemoveExpiredAt(time.Now().Add(10 * time.Minute)) },
			func() { _ = c.pl.VHandlePacket(relay) },
			func() { _, _ = c.cs.LookupEndpoint("e2"); _ = c.gs.Nodes() },
		}
		check := func(o *vsync.Outcome) []string {
			msgs := c.mirrored()
			msgs = append(msgs, c.quiescent()...)
			last = c.finalState()
			return msgs
		}
		return bodies, check
	}}
}

// progH: a node known only from a third party's digest (no detector window
// yet) sends its first datagram while the liveness task evaluates every node
// and the sweep runs.
func progH() schedProgram {
	var last string
	return schedProgram{Name: "H-first-heartbeat-vs-liveness", outcome: &last, Build: func() ([]func(), func(o *vsync.Outcome) []string) {
		c := newNodeCore()
		c.learnRemote("nY", "10.0.0.2:7000")
		// nZ: learned from nY's digest only
		_ = c.pl.VHandlePacket(remoteDigest("nY", "10.0.0.2:7000",
			gossip.VDigestEntry{ID: "nY", Addr: "10.0.0.2:7000", Version: 2},
			gossip.VDigestEntry{ID: "nZ", Addr: "10.0.0.3:7000", Version: 3}))
		first := remoteDelta("nZ", "10.0.0.3:7000",
			gossip.Entry{Key: "proxy_addr", Value: "p-nZ", Version: 1},
			gossip.Entry{Key: "admin_addr", Value: "a-nZ", Version: 2},
			gossip.Entry{Key: "endpoint:e2", Value: "1", Version: 3})
		bodies := []func(){
			func() { _ = c.pl.VHandlePacket(first) },
			func() {
				c.gs.UpdateLiveness(float64(gossip.VSuspicionThreshold))
				c.gs.UpdateLiveness(float64(gossip.VSuspicionThreshold))
			},
			func() { c.gs.RemoveExpiredAt(time.Now()); _ = c.gs.UnreachableNodes() },
		}
		check := func(o *vsync.Outcome) []string {
			msgs := c.mirrored()
			msgs = append(msgs, c.quiescent()...)
			if _, known := c.gs.Node("nZ"); !known {
				msgs = append(msgs, "node-lost: nZ was known and sent a datagram, yet it is gone from the view")
			} else if n, ok := c.gs.Node("nZ"); ok && n.Unreachable {
				msgs = append(msgs, "fresh-node-flagged: nZ was heard from this instant and is flagged unreachable")
			}
			last = c.finalState()
			return msgs
		}
		return bodies, check
	}}
}

// progI: the expiry sweep against a node that is heard from again and
// restored by the liveness task. Once the liveness task has restored the node
// (observed by the thread that ran it) nothing may forget it: a restored node
// has no expiry.
func progI() schedProgram {
	var last string
	return schedProgram{Name: "I-sweep-vs-restore", outcome: &last, Build: func() ([]func(), func(o *vsync.Outcome) []string) {
		c := newNodeCore()
		c.learnRemote("nY", "10.0.0.2:7000")
		c.learnRemote("nZ", "10.0.0.3:7000", "e2")
		c.fd.Remove("nZ")
		c.fd.ReportWithTimestamp("nZ", time.Now().Add(-2*time.Hour))
		c.gs.UpdateLiveness(float64(gossip.VSuspicionThreshold)) // nZ flagged, expiry armed
		hb := remoteDelta("nZ", "10.0.0.3:7000",
			gossip.Entry{Key: "proxy_addr", Value: "p-nZ", Version: 1},
			gossip.Entry{Key: "admin_addr", Value: "a-nZ", Version: 2},
			gossip.Entry{Key: "endpoint:e2", Value: "1", Version: 3},
			gossip.Entry{Key: "endpoint:e3", Value: "1", Version: 4})
		restoredSeen := false
		bodies := []func(){
			func() { c.gs.RemoveExpiredAt(time.Now().Add(10 * time.Minute)) },
			func() {
				_ = c.pl.VHandlePacket(hb)
				c.gs.UpdateLiveness(float64(gossip.VSuspicionThreshold))
				if n, ok := c.gs.Node("nZ"); ok && !n.Unreachable {
					restoredSeen = true
				}
			},
			func() { _, _ = c.cs.LookupEndpoint("e2") },
		}
		check := func(o *vsync.Outcome) []string {
			var msgs []string
			_, present := c.gs.Node("nZ")
			if restoredSeen && !present {
				msgs = append(msgs, "restored-node-forgotten: nZ was heard from and restored by the liveness task (reachable, no expiry), and was forgotten by the sweep afterwards")
			}
			msgs = append(msgs, c.mirrored()...)
			msgs = append(msgs, c.quiescent()...)
			last = fmt.Sprintf("%s restored=%v present=%v", c.finalState(), restoredSeen, present)
			return msgs
		}
		return bodies, check
	}}
}

// progJ: the periodic compaction of a node's own state against the
// application writing and deleting keys. Whatever the order, no write is lost
// and no deleted key comes back.
func progJ() schedProgram {
	var last string
	return schedProgram{Name: "J-compaction-vs-local-writes", outcome: &last, Build: func() ([]func(), func(o *vsync.Outcome) []string) {
		c := newNodeCore()
		c.gs.UpsertLocal("ka", "1")
		c.gs.UpsertLocal("kb", "1")
		c.gs.DeleteLocal("kb")
		bodies := []func(){
			func() { c.gs.CompactLocal(1) },
			func() { c.gs.UpsertLocal("kc", "1"); c.gs.DeleteLocal("ka") },
			func() { c.gs.UpsertLocal("kd", "2"); _ = c.gs.Delta(c.gs.Digest(), true) },
		}
		check := func(o *vsync.Outcome) []string {
			var msgs []string
			live := map[string]string{}
			seen := map[uint64]string{}
			ln := c.gs.LocalNode()
			for _, e := range ln.Entries {
				if other, dup := seen[e.Version]; dup {
					msgs = append(msgs, fmt.Sprintf("local-versions-collide: %s and %s both have version %d", other, e.Key, e.Version))
				}
				seen[e.Version] = e.Key
				if e.Version > ln.Version {
					msgs = append(msgs, fmt.Sprintf("local-entry-above-node-version: %s has version %d, the node %d", e.Key, e.Version, ln.Version))
				}
				if !e.Deleted && strings.HasPrefix(e.Key, "k") {
					live[e.Key] = e.Value
				}
			}
			if got, want := fmt.Sprint(live), fmt.Sprint(map[string]string{"kc": "1", "kd": "2"}); got != want {
				msgs = append(msgs, fmt.Sprintf("local-write-lost: the application wrote kc=1, kd=2 and deleted ka, kb; the node's own state shows %s", got))
			}
			msgs = append(msgs, c.quiescent()...)
			last = fmt.Sprint(live)
			return msgs
		}
		return bodies, check
	}}
}

