package main

import (
	"fmt"
	"io"
	"math"
	"math/big"
	"sort"
	"sync"

	"github.com/andydunstall/piko/pkg/log"
	"github.com/andydunstall/piko/server/cluster"
	"github.com/andydunstall/piko/server/config"
	"github.com/andydunstall/piko/server/upstream"
	"github.com/andydunstall/yamux"
	"verifharness/internal/evid"
)

// C19: the real upstream.Server.Rebalance() on a server whose session set is
// filled with real yamux sessions (over an idle in-memory transport) and
// whose cluster.State is populated with nodes; every configuration of a grid.

type idleConn struct {
	once sync.Once
	done chan struct{}
}

func newIdleConn() *idleConn { return &idleConn{done: make(chan struct{})} }

func (c *idleConn) Read(p []byte) (int, error) { <-c.done; return 0, io.EOF }
func (c *idleConn) Write(p []byte) (int, error) {
	select {
	case <-c.done:
		return 0, io.ErrClosedPipe
	default:
		return len(p), nil
	}
}
func (c *idleConn) Close() error { c.once.Do(func() { close(c.done) }); return nil }

type otherNode struct {
	Status string `json:"status"`
	Conns  int    `json:"conns"`
}

type rebCase struct {
	Threshold float64     `json:"threshold"`
	ShedRate  float64     `json:"shed_rate"`
	MinConns  uint        `json:"min_conns"`
	Local     int         `json:"local"`
	Others    []otherNode `json:"others"`
	// not-a-number is a value both the flag parser and the YAML loader
	// accept ("NaN", ".nan"); JSON cannot carry it, hence the flags
	ThresholdNaN bool `json:"threshold_nan,omitempty"`
	ShedRateNaN  bool `json:"shed_rate_nan,omitempty"`
}

func runRebCase(c rebCase) (closed int, sig, msg string) {
	defer func() {
		if r := recover(); r != nil {
			sig, msg = "panic", fmt.Sprintf("Rebalance panicked: %v", r)
		}
	}()
	cs := cluster.NewState(&cluster.Node{ID: "local", ProxyAddr: "p", AdminAddr: "a"}, log.NewNopLogger())
	// the local connections are registered the way the server registers them:
	// through the real manager (several of them on the same endpoint)
	mgr := upstream.NewLoadBalancedManager(cs, nil)
	for i := 0; i < c.Local; i++ {
		mgr.AddConn(&fakeUpstream{name: fmt.Sprintf("u%d", i), ep: fmt.Sprintf("e%d", i%2)})
	}
	for i, o := range c.Others {
		eps := map[string]int{}
		if o.Conns > 0 {
			eps["x"] = o.Conns
		}
		cs.AddNode(&cluster.Node{ID: fmt.Sprintf("n%d", i), Status: cluster.NodeStatus(o.Status), ProxyAddr: "p", AdminAddr: "a", Endpoints: eps})
	}
	if c.ThresholdNaN {
		c.Threshold = math.NaN()
	}
	if c.ShedRateNaN {
		c.ShedRate = math.NaN()
	}
	conf := config.UpstreamConfig{Rebalance: config.RebalanceConfig{Threshold: c.Threshold, ShedRate: c.ShedRate, MinConns: c.MinConns}}
	// a configuration the server refuses to start with cannot shed anything;
	// everything it accepts is held to the property
	if err := conf.Rebalance.Validate(); err != nil {
		return 0, "config-rejected", err.Error()
	}
	srv := upstream.NewServer(mgr, nil, nil, cs, conf, log.NewNopLogger())
	mux := yamux.DefaultConfig()
	mux.EnableKeepAlive = false
	mux.LogOutput = io.Discard
	var sessions []*yamux.Session
	for i := 0; i < c.Local; i++ {
		s, err := yamux.Server(newIdleConn(), mux)
		if err != nil {
			panic(err)
		}
		sessions = append(sessions, s)
		srv.VAddSession(s)
	}
	defer func() {
		for _, s := range sessions {
			s.Close()
		}
	}()
	srv.Rebalance()
	for _, s := range sessions {
		if s.IsClosed() {
			closed++
		}
	}
	// ----- property-level oracle (exact arithmetic) -----
	activeNodes, activeConns := 1, c.Local
	for _, o := range c.Others {
		if o.Status == string(cluster.NodeStatusActive) {
			activeNodes++
			activeConns += o.Conns
		}
	}
	avg := activeConns / activeNodes // whole connections
	if closed > c.Local {
		return closed, "closed-more-than-open", fmt.Sprintf("closed %d of %d", closed, c.Local)
	}
	if c.ThresholdNaN && closed > 0 {
		// no excess is "at least" an undefined threshold
		return closed, "shed-with-undefined-threshold", fmt.Sprintf("the threshold is not a number, the server started with it and closed %d connections (local %d, average %d)", closed, c.Local, avg)
	}
	if c.ShedRateNaN {
		if closed > 1 {
			return closed, "shed-with-undefined-rate", fmt.Sprintf("the shed rate is not a number, the server started with it and closed %d connections in one step (local %d, average %d)", closed, c.Local, avg)
		}
		c.ShedRate = 0
	}
	rate := new(big.Rat).SetFloat64(c.ShedRate)
	capR := new(big.Rat).Mul(rate, big.NewRat(int64(avg), 1))
	capF, _ := capR.Float64()
	cap := int(math.Ceil(capF))
	if cap < 1 {
		cap = 1
	}
	if closed > cap {
		return closed, "shed-faster-than-rate", fmt.Sprintf("closed %d > max(1, ceil(%v x %d)) = %d", closed, c.ShedRate, avg, cap)
	}
	if closed > 0 {
		if len(c.Others) == 0 {
			return closed, "shed-when-alone", "shed connections although no other node is known"
		}
		min := uint64(c.MinConns) // not int: the configured value may not fit one
		if min < 1 {
			min = 1
		}
		if uint64(c.Local) < min {
			return closed, "shed-below-min-conns", fmt.Sprintf("shed with %d connections, minimum %d", c.Local, c.MinConns)
		}
		if avg > 0 {
			bal := big.NewRat(int64(c.Local-avg), int64(avg))
			if bal.Cmp(new(big.Rat).SetFloat64(c.Threshold)) < 0 {
				return closed, "shed-below-threshold", fmt.Sprintf("shed with local %d, average %d: excess %v < threshold %v", c.Local, avg, bal, c.Threshold)
			}
		}
	}
	if c.Local <= avg && closed > 0 {
		return closed, "shed-at-or-below-average", fmt.Sprintf("local %d <= average %d but closed %d", c.Local, avg, closed)
	}
	return closed, "", ""
}

func multisets(choices []otherNode, k int) [][]otherNode {
	var out [][]otherNode
	var rec func(start int, cur []otherNode)
	rec = func(start int, cur []otherNode) {
		if len(cur) == k {
			out = append(out, append([]otherNode(nil), cur...))
			return
		}
		for i := start; i < len(choices); i++ {
			rec(i, append(cur, choices[i]))
		}
	}
	rec(0, nil)
	return out
}

func init() {
	register("C19", func(args []string) int {
		run := evid.NewRun("C19", "exploration")
		// negative thresholds and rates outside [0,1] are configurations a user
		// can write: either the server refuses them or it sheds within the rules
		thresholds := []float64{-1, -0.5, 0.25, 0.5, 1, 2}
		rates := []float64{-0.5, 0, 0.25, 0.5, 1, 2}
		mins := []uint{0, 1, 3, math.MaxUint} // the largest value the flag accepts
		maxLocal, maxOthers, maxConns := 6, 2, 4
		if run.Thorough() {
			maxOthers = 3
			maxLocal = 8
			thresholds = []float64{-1, -0.5, -0.125, 0.125, 0.25, 0.5, 1, 2}
		}
		var choices []otherNode
		for _, st := range []string{"active", "unreachable", "left"} {
			for c := 0; c <= maxConns; c++ {
				choices = append(choices, otherNode{Status: st, Conns: c})
			}
		}
		var others [][]otherNode
		for k := 0; k <= maxOthers; k++ {
			others = append(others, multisets(choices, k)...)
		}
		type job struct{ c rebCase }
		jobs := make(chan rebCase, 256)
		var mu sync.Mutex
		evals, shed, rejected := 0, 0, 0
		distinct := map[string]bool{}
		var wg sync.WaitGroup
		for w := 0; w < 16; w++ {
			wg.Add(1)
			go func() {
				defer wg.Done()
				for c := range jobs {
					closed, sig, msg := runRebCase(c)
					mu.Lock()
					evals++
					if closed > 0 {
						shed++
						distinct[fmt.Sprintf("%v%v/%v%v/%d/%d/%v->%d", c.Threshold, c.ThresholdNaN, c.ShedRate, c.ShedRateNaN, c.MinConns, c.Local, c.Others, closed)] = true
						if shed%997 == 1 {
							run.Sample(map[string]any{"case": c, "closed": closed})
						}
					}
					mu.Unlock()
					if sig == "config-rejected" {
						mu.Lock()
						rejected++
						mu.Unlock()
						continue
					}
					if sig != "" {
						run.Violation("C19", sig, msg+fmt.Sprintf(" (case %+v)", c), map[string]any{"engine": "E3-C19", "case": c})
					}
				}
			}()
		}
		for _, th := range thresholds {
			for _, r := range rates {
				for _, m := range mins {
					for l := 0; l <= maxLocal; l++ {
						for _, o := range others {
							jobs <- rebCase{Threshold: th, ShedRate: r, MinConns: m, Local: l, Others: o}
						}
						// not-a-number in either place (once per value of the other)
						if th == thresholds[0] {
							for _, o := range others {
								jobs <- rebCase{ThresholdNaN: true, ShedRate: r, MinConns: m, Local: l, Others: o}
							}
						}
						if r == rates[0] {
							for _, o := range others {
								jobs <- rebCase{Threshold: th, ShedRateNaN: true, MinConns: m, Local: l, Others: o}
							}
						}
					}
				}
			}
		}
		close(jobs)
		wg.Wait()
		run.Set("evaluations", evals)
		run.Set("configurations_rejected_by_validate", rejected)
		run.Set("distinct_nontrivial", len(distinct))
		run.Set("rule", "full cross product threshold x shed rate x min conns x local connections 0..N x every multiset of up to K other nodes (status x connections); non-trivial = distinct configurations in which Rebalance() closed at least one session")
		run.Set("exhaustive", true)
		run.Set("grid", map[string]any{"thresholds": thresholds, "shed_rates": rates, "min_conns": mins, "local": fmt.Sprintf("0..%d", maxLocal), "other_nodes": fmt.Sprintf("0..%d, status {active,unreachable,left} x conns 0..%d (multisets)", maxOthers, maxConns)})
		var ks []string
		for k := range distinct {
			ks = append(ks, k)
		}
		sort.Strings(ks)
		fmt.Printf("  C19: configurations=%d shedding=%d\n", evals, len(distinct))
		// "only when rebalancing is enabled": the periodic task is started by
		// server.go only for a non-zero threshold. Real node, 4 upstream
		// connections, a maximally imbalanced view (one other node with none).
		for _, th := range []float64{0, 0.5} {
			closed, err := rebalanceEnabledCase(th)
			switch {
			case err != nil:
				evid.Fatal("rebalance node case: %v", err)
			case th == 0 && closed > 0:
				run.Violation("C19", "shed-while-disabled", fmt.Sprintf("threshold 0 (rebalancing disabled) but %d of 4 connections were closed within 3.5s", closed), map[string]any{"engine": "E3-C19", "node_case_threshold": th})
			case th != 0 && closed == 0:
				run.Violation("C19", "enabled-rebalancing-never-sheds", "threshold 0.5 with 4 local connections and an idle peer: nothing was shed within 15s", map[string]any{"engine": "E3-C19", "node_case_threshold": th})
			}
			evals++
		}
		run.Set("evaluations", evals)
		return run.Finish()
	})
	replayers["E3-C19"] = func(path string) int {
		var doc struct {
			Replay struct {
				Case rebCase `json:"case"`
			} `json:"replay"`
		}
		readJSON(path, &doc)
		c1, s1, m1 := runRebCase(doc.Replay.Case)
		c2, s2, m2 := runRebCase(doc.Replay.Case)
		fmt.Println("closed", c1, s1, m1)
		if c1 != c2 || s1 != s2 || m1 != m2 {
			evid.Fatal("replay is not deterministic")
		}
		return 0
	}
}
