package main

import (
	"bufio"
	"context"
	"fmt"
	"net/url"
	"strings"
	"time"

	"github.com/andydunstall/piko/client"
	"verifharness/internal/e4"
	"verifharness/internal/evid"
)

// c01Dialer: the TCP route as a client really uses it - through client.Dialer
// - for endpoint ids that need escaping in a URL path, each with its own real
// listener, among them an id that IS the escaped form of another one. Every
// dial, at every entry node, reaches a listener of exactly the id that was
// dialled; the same ids through the HTTP route (header addressing).
func c01Dialer(run *evid.Run) (evals int) {
	nodes, err := e4.StartCluster(2, nil)
	if err != nil {
		evid.Fatal("cluster: %v", err)
	}
	defer func() {
		for _, n := range nodes {
			n.Stop()
		}
	}()
	ids := []string{"orders,eu", "orders%2Ceu", "a b", "a+b", "q?x=1", "é1", "per%cent", "plain"}
	ctx := context.Background()
	for _, id := range ids {
		l, err := e4.Listen(ctx, nodes[1].UpstreamAddr(), id, "l-"+id, e4.ListenOpts{})
		if err != nil {
			run.Violation("C01", "listen-failed", fmt.Sprintf("listening on endpoint %q: %v", id, err), map[string]any{"engine": "E4-C01-dialer", "endpoint": id})
			return
		}
		defer l.Ln.Shutdown() //nolint
	}
	if !e4.WaitFor(30*time.Second, func() bool {
		n, ok := nodes[0].State().Node(nodes[1].ID)
		if !ok {
			return false
		}
		for _, id := range ids {
			if n.Endpoints[id] != 1 {
				return false
			}
		}
		return true
	}) {
		run.Violation("C01", "routing-did-not-settle", fmt.Sprintf("listeners on %q: node 0 sees %s", ids, e4.ViewOf(nodes[0])), map[string]any{"engine": "E4-C01-dialer"})
		return
	}
	for e, nd := range nodes {
		for _, id := range ids {
			evals++
			d := &client.Dialer{URL: &url.URL{Scheme: "http", Host: nd.ProxyAddr()}}
			dctx, cancel := context.WithTimeout(ctx, 20*time.Second)
			conn, err := d.Dial(dctx, id)
			cancel()
			for r := 0; r < 3 && err != nil && !e4.AllActive(nodes); r++ {
				e4.WaitAllActive(nodes, 30*time.Second) // membership flapped under load: decide afresh
				dctx, cancel = context.WithTimeout(ctx, 20*time.Second)
				conn, err = d.Dial(dctx, id)
				cancel()
			}
			desc := fmt.Sprintf("client.Dialer dialling endpoint %q at node %d", id, e)
			if err != nil {
				run.Violation("C01", "not-served-although-upstream-exists", desc+": "+err.Error(), map[string]any{"engine": "E4-C01-dialer", "endpoint": id, "entry": e})
				continue
			}
			_ = conn.SetDeadline(time.Now().Add(20 * time.Second))
			_, _ = conn.Write([]byte("tcp:hello\n"))
			line, err := bufio.NewReader(conn).ReadString('\n')
			conn.Close()
			// the stamp's endpoint field is the rest of the line between "STAMP " and the listener name
			if err != nil || !strings.HasPrefix(line, "STAMP ") {
				run.Violation("C01", "request-failed", fmt.Sprintf("%s: reply %q err %v", desc, line, err), map[string]any{"engine": "E4-C01-dialer", "endpoint": id, "entry": e})
				continue
			}
			if !strings.Contains(line, " l-"+id+" ") {
				run.Violation("C01", "delivered-to-wrong-endpoint", fmt.Sprintf("%s: answered by %q", desc, strings.TrimSpace(line)), map[string]any{"engine": "E4-C01-dialer", "endpoint": id, "entry": e})
			}
			// the same id through the HTTP route
			evals++
			res := e4.DoHTTP(nd.ProxyAddr(), e4.Addressing{Mode: "header", Endpoint: id})
			for r := 0; r < 3 && res.Status != 200 && !e4.AllActive(nodes); r++ {
				e4.WaitAllActive(nodes, 30*time.Second)
				res = e4.DoHTTP(nd.ProxyAddr(), e4.Addressing{Mode: "header", Endpoint: id})
			}
			if res.Err != "" || res.Status != 200 || res.Upstream != "l-"+id {
				run.Violation("C01", "delivered-to-wrong-endpoint", fmt.Sprintf("x-piko-endpoint: %q at node %d -> %s", id, e, res), map[string]any{"engine": "E4-C01-dialer", "endpoint": id, "entry": e})
			}
		}
	}
	return evals
}
