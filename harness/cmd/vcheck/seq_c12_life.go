package main

import (
	"fmt"
	"time"

	"github.com/andydunstall/piko/pkg/gossip"
	"verifharness/internal/evid"
)

// C12 lifecycle: the detector's memory of a node ends with the node. A node
// is heard for a while, departs (leaves gracefully / falls silent and is
// flagged), is swept after its expiry, and a node with the same id is heard
// again much later. The newcomer's level is computed from its own arrivals
// only (first interval = bootstrap): zero at its first arrival, above the
// threshold after 21 bootstrap intervals of silence, not above it after 19.
// Real clusterState + real accrual detector on a harness clock.
func c12Lifecycle(run *evid.Run) (cases int) {
	const bootstrap = 200 // ms
	notSwept := 0
	defer func() {
		if run.Violations() == 0 && notSwept == cases {
			evid.Fatal("vacuous: no lifecycle case got as far as the returning node")
		}
	}()
	for _, departure := range []string{"leave", "silent"} {
		for _, before := range []int{1, 3, 60} { // arrivals of the first incarnation
			for _, steady := range []int64{50, 100, 1000} { // its steady interval (ms)
				for _, away := range []int64{70_000, 600_000} { // time between expiry and return
					cases++
					fd := &clockFD{real: gossip.VNewAccrualFD(bootstrap*time.Millisecond, 50), now: time.Unix(3_000_000, 0)}
					st := gossip.VNewClusterState("local", "10.0.0.1:7000", fd, sharedGossipMetrics, nopWatcher{})
					pl := gossip.VNewPacketListener(discardConn{}, st, fd, 1400, sharedGossipMetrics)
					version := uint64(0)
					hb := func(left bool) {
						version++
						es := []gossip.Entry{{Key: "k", Value: fmt.Sprint(version), Version: version}}
						if left {
							version++
							es = append(es, gossip.Entry{Key: gossip.VLeftKey, Version: version, Internal: true})
						}
						b, err := gossip.VEncodeDelta(gossip.VDeltaHeader{NodeID: "nB", Addr: "10.0.0.2:7000"}, gossip.VDelta{{ID: "nB", Addr: "10.0.0.2:7000", Entries: es}}, 1400)
						if err != nil {
							panic(err)
						}
						_ = pl.VHandlePacket(b)
					}
					advance := func(ms int64) { fd.now = fd.now.Add(time.Duration(ms) * time.Millisecond) }
					desc := fmt.Sprintf("first incarnation: %d arrivals every %dms, departure by %s, swept, same id heard again %ds later", before, steady, departure, away/1000)
					failed := false
					fail := func(sig, msg string) {
						failed = true
						run.Violation("C12", sig, desc+": "+msg, map[string]any{"engine": "E3-C12-life", "departure": departure, "arrivals": before, "interval_ms": steady, "away_ms": away})
					}
					for i := 0; i < before; i++ {
						hb(false)
						advance(steady)
					}
					if departure == "leave" {
						hb(true)
						if n, ok := st.Node("nB"); !ok || !n.Left {
							evid.Fatal("lifecycle %s: the leave was not recorded", desc)
						}
					} else {
						advance(100 * steady * 21)
						st.UpdateLiveness(float64(gossip.VSuspicionThreshold))
						if n, ok := st.Node("nB"); !ok || !n.Unreachable {
							fail("silent-peer-not-suspected", "after 2100 steady intervals of silence the liveness task does not flag the node")
							continue
						}
						// nothing is heard: the level only grows, tick after tick, and the
						// node stays suspected
						before := fd.real.SuspicionLevelAt("nB", fd.now)
						for tick := 1; tick <= 3; tick++ {
							advance(steady)
							lvl := fd.real.SuspicionLevelAt("nB", fd.now)
							st.UpdateLiveness(float64(gossip.VSuspicionThreshold))
							n, ok := st.Node("nB")
							if lvl < before || !ok || !n.Unreachable {
								fail("level-not-monotone", fmt.Sprintf("%d liveness tick(s) after the node was flagged, with no arrival in between, its level went from %v to %v (flagged: %v)", tick, before, lvl, ok && n.Unreachable))
								break
							}
							before = lvl
						}
						if failed {
							continue
						}
					}
					st.RemoveExpiredAt(time.Now().Add(3 * gossip.VNodeExpiry))
					if _, ok := st.Node("nB"); ok {
						// membership did not forget the node (C11's subject): this case says
						// nothing about the detector
						notSwept++
						continue
					}
					advance(away)
					// the same id is back: a fresh node as far as the detector goes
					version += 10
					hb(false)
					if lvl := fd.real.SuspicionLevelAt("nB", fd.now); lvl != 0 {
						fail("nonzero-at-arrival", fmt.Sprintf("level %v at the moment the returning node is heard", lvl))
						continue
					}
					st.UpdateLiveness(float64(gossip.VSuspicionThreshold))
					if n, ok := st.Node("nB"); !ok || n.Unreachable {
						fail("fresh-node-flagged", "the returning node is flagged unreachable at the moment it is heard")
						continue
					}
					lvl19 := fd.real.SuspicionLevelAt("nB", fd.now.Add(19*bootstrap*time.Millisecond))
					lvl21 := fd.real.SuspicionLevelAt("nB", fd.now.Add(21*bootstrap*time.Millisecond))
					if !(lvl21 > float64(gossip.VSuspicionThreshold)) || lvl19 > float64(gossip.VSuspicionThreshold) {
						fail("level-differs-from-reference", fmt.Sprintf("one arrival of the returning node, bootstrap interval %dms: level after 19 intervals of silence %v, after 21 %v (reference: 19 and 21): arrivals of the departed incarnation still count", bootstrap, lvl19, lvl21))
					}
				}
			}
		}
	}
	return cases
}
