package main

import (
	"errors"
	"fmt"
	"net"
	"sync"
	"sync/atomic"
	"syscall"
	"time"

	"github.com/andydunstall/piko/pkg/gossip"
	"github.com/andydunstall/piko/pkg/log"
	"verifharness/internal/e4"
	"verifharness/internal/gw"
)

// Real gossip.New instances on loopback sockets: what E1 cannot reach because
// it drives handlePacket directly - the receive loop (Serve), its read buffer
// and what the sockets themselves do. Three situations, each a short
// free-running scenario with a generous deadline:
//
//   read-error: one transient error from ReadFrom (an ICMP port-unreachable
//               surfaces like that on a UDP socket) and gossip carries on
//   exact-fit:  an entry whose delta datagram is exactly max-packet-size long
//               is received like any other
//   burst:      many datagrams back to back are each applied as sent

type flakyReadConn struct {
	net.PacketConn
	fail atomic.Int32 // number of reads that fail with a transient error
}

func (c *flakyReadConn) ReadFrom(p []byte) (int, net.Addr, error) {
	if c.fail.Load() > 0 && c.fail.Add(-1) >= 0 {
		return 0, nil, &net.OpError{Op: "read", Net: "udp", Err: syscall.ECONNREFUSED}
	}
	return c.PacketConn.ReadFrom(p)
}

func newRealGossipSize(id string, maxPacket int, wrap func(net.PacketConn) net.PacketConn) (*gossip.Gossip, string, error) {
	sl, err := net.Listen("tcp", "127.0.0.1:0")
	if err != nil {
		return nil, "", err
	}
	pc, err := net.ListenUDP("udp", &net.UDPAddr{IP: net.ParseIP("127.0.0.1"), Port: sl.Addr().(*net.TCPAddr).Port})
	if err != nil {
		sl.Close()
		return nil, "", err
	}
	var conn net.PacketConn = pc
	if wrap != nil {
		conn = wrap(pc)
	}
	addr := sl.Addr().String()
	g := gossip.New(id, &gossip.Config{BindAddr: addr, AdvertiseAddr: addr, Interval: 10 * time.Millisecond, MaxPacketSize: maxPacket}, sl, conn, nopWatcher{}, log.NewNopLogger())
	return g, addr, nil
}

// realPair starts nX and nO (nO joins nX); wrapO wraps nO's datagram socket.
func realPair(maxPacket int, wrapO func(net.PacketConn) net.PacketConn) (x, o *gossip.Gossip, stop func(), err error) {
	x, _, err = newRealGossipSize("nX", maxPacket, nil)
	if err != nil {
		return nil, nil, nil, err
	}
	o, _, err = newRealGossipSize("nO", maxPacket, wrapO)
	if err != nil {
		x.Close()
		return nil, nil, nil, err
	}
	stop = func() { o.Close(); x.Close() }
	if _, err = o.Join([]string{x.LocalNode().Addr}); err != nil {
		stop()
		return nil, nil, nil, err
	}
	if !e4.WaitFor(10*time.Second, func() bool { _, ok := x.Node("nO"); return ok }) {
		stop()
		return nil, nil, nil, errors.New("nX never learned nO")
	}
	return x, o, stop, nil
}

func sees(o *gossip.Gossip, owner, key, val string) bool {
	n, ok := o.Node(owner)
	if !ok {
		return false
	}
	for _, e := range n.Entries {
		if e.Key == key && !e.Deleted && e.Value == val {
			return true
		}
	}
	return false
}

// realNodeScenarios returns (signature, message) per failed scenario.
func realNodeScenarios() (n int, fails [][2]string) {
	fail := func(sig, format string, a ...any) { fails = append(fails, [2]string{sig, fmt.Sprintf(format, a...)}) }
	// --- read-error
	n++
	{
		var fc *flakyReadConn
		x, o, stop, err := realPair(1400, func(pc net.PacketConn) net.PacketConn { fc = &flakyReadConn{PacketConn: pc}; return fc })
		if err != nil {
			fail("harness", "real nodes: %v", err)
		} else {
			x.UpsertLocal("k1", "v1")
			if !e4.WaitFor(20*time.Second, func() bool { return sees(o, "nX", "k1", "v1") }) {
				fail("harness", "real nodes never converged before the fault")
			}
			fc.fail.Store(1)
			time.Sleep(100 * time.Millisecond)
			x.UpsertLocal("k2", "v2")
			if !e4.WaitFor(30*time.Second, func() bool { return sees(o, "nX", "k2", "v2") }) {
				fail("deaf-after-transient-read-error", "one ReadFrom of nO's datagram socket failed with ECONNREFUSED; 30s later nO still has not learned what nX wrote afterwards (it keeps sending but never hears anything again)")
			} else if nd, ok := o.Node("nX"); ok && nd.Unreachable {
				fail("deaf-after-transient-read-error", "after one transient read error nO marks the steadily gossiping nX unreachable")
			}
			stop()
		}
	}
	// --- exact-fit
	for _, size := range []int{256, 512, 1400} {
		n++
		x, o, stop, err := realPair(size, nil)
		if err != nil {
			fail("harness", "real nodes: %v", err)
			continue
		}
		x.UpsertLocal("a", "1")
		if !e4.WaitFor(20*time.Second, func() bool { return sees(o, "nX", "a", "1") }) {
			fail("harness", "real nodes never converged (packet size %d)", size)
			stop()
			continue
		}
		ver := x.LocalNode().Version + 1
		val := exactFitFor(x, "b", ver, size)
		x.UpsertLocal("b", val)
		x.UpsertLocal("c", "1")
		ok := e4.WaitFor(30*time.Second, func() bool { return sees(o, "nX", "b", val) && sees(o, "nX", "c", "1") })
		if !ok {
			fail("full-size-datagram-never-received", "max packet size %d: nX wrote an entry whose delta datagram is exactly %d bytes; 30s later nO has neither it nor what was written after it (its view of nX is at version %d of %d)", size, size, versionOf(o, "nX"), x.LocalNode().Version)
		} else if nd, ok := o.Node("nX"); ok && nd.Unreachable {
			fail("full-size-datagram-never-received", "max packet size %d: nO marks the steadily gossiping nX unreachable", size)
		}
		stop()
	}
	// --- burst
	n++
	{
		x, o, stop, err := realPair(1400, nil)
		if err != nil {
			fail("harness", "real nodes: %v", err)
		} else {
			for i := 0; i < 400; i++ {
				x.UpsertLocal(fmt.Sprintf("key-%03d", i), fmt.Sprintf("value-%03d-%s", i, "0123456789012345678901234567890123456789"))
			}
			want := x.LocalNode().Version
			if !e4.WaitFor(30*time.Second, func() bool { return versionOf(o, "nX") == want }) {
				fail("burst-not-applied", "nX wrote 400 keys; 30s later nO's view of it is at version %d of %d", versionOf(o, "nX"), want)
			} else {
				for i := 0; i < 400; i += 37 {
					if !sees(o, "nX", fmt.Sprintf("key-%03d", i), fmt.Sprintf("value-%03d-%s", i, "0123456789012345678901234567890123456789")) {
						fail("burst-not-applied", "nO is at nX's version but key-%03d is missing or wrong", i)
						break
					}
				}
			}
			stop()
		}
	}
	// --- back-to-back datagrams through the receive loop itself
	n++
	if msg := serveBurst(300); msg != "" {
		fail("burst-not-applied", "%s", msg)
	}
	return n, fails
}

// burstConn hands the receive loop a queue of datagrams without a pause
// between them, then blocks until it is closed.
type burstConn struct {
	discardConn
	ch     chan []byte
	closed chan struct{}
}

func (c *burstConn) ReadFrom(p []byte) (int, net.Addr, error) {
	select {
	case b := <-c.ch:
		return copy(p, b), &net.UDPAddr{IP: net.ParseIP("10.0.0.2"), Port: 7000}, nil
	case <-c.closed:
		return 0, nil, net.ErrClosed
	}
}

func (c *burstConn) Close() error { close(c.closed); return nil }

// serveBurst: k deltas from k different senders, each introducing the sender
// with one entry, are queued back to back on the socket of a real packet
// listener running its real Serve loop. Every one of them must be applied as
// sent and reported to the failure detector once.
func serveBurst(k int) string {
	fd := &countFD{n: map[string]int{}}
	fdmu := &lockedFD{fd: fd}
	st := gossip.VNewClusterState("local", "10.0.0.1:7000", fdmu, sharedGossipMetrics, nopWatcher{})
	conn := &burstConn{ch: make(chan []byte, k), closed: make(chan struct{})}
	pl := gossip.VNewPacketListener(conn, st, fdmu, 1400, sharedGossipMetrics)
	for i := 0; i < k; i++ {
		id, addr := fmt.Sprintf("peer-%03d", i), fmt.Sprintf("10.0.1.%d:7000", i)
		b, err := gossip.VEncodeDelta(gossip.VDeltaHeader{NodeID: id, Addr: addr},
			gossip.VDelta{{ID: id, Addr: addr, Entries: []gossip.Entry{{Key: "who", Value: id, Version: 1}}}}, 1400)
		if err != nil {
			return "harness: " + err.Error()
		}
		conn.ch <- b
	}
	go pl.Serve()
	defer conn.Close()
	ok := e4.WaitFor(20*time.Second, func() bool { return len(conn.ch) == 0 && len(st.Nodes()) == k+1 })
	time.Sleep(200 * time.Millisecond)
	bad := 0
	example := ""
	for i := 0; i < k; i++ {
		id := fmt.Sprintf("peer-%03d", i)
		nd, known := st.Node(id)
		good := known && len(nd.Entries) == 1 && nd.Entries[0].Value == id && fdmu.count(id) == 1
		if !good {
			bad++
			if example == "" {
				example = fmt.Sprintf("%s: known=%v heartbeats=%d", id, known, fdmu.count(id))
			}
		}
	}
	if bad > 0 || !ok {
		return fmt.Sprintf("%d datagrams from %d senders arrived back to back: %d of them were not applied as sent / not counted as exactly one heartbeat (e.g. %s); the node knows %d nodes", k, k, bad, example, len(st.Nodes())-1)
	}
	return ""
}

// lockedFD makes the counting detector safe for concurrent use (a receive
// loop that handled packets concurrently would otherwise crash the harness
// rather than fail the check).
type lockedFD struct {
	mu sync.Mutex
	fd *countFD
}

func (f *lockedFD) Report(id string) { f.mu.Lock(); f.fd.Report(id); f.mu.Unlock() }
func (f *lockedFD) SuspicionLevel(id string) float64 { return 0 }
func (f *lockedFD) Remove(id string)                {}
func (f *lockedFD) count(id string) int             { f.mu.Lock(); defer f.mu.Unlock(); return f.fd.n[id] }

func versionOf(o *gossip.Gossip, id string) uint64 {
	if n, ok := o.Node(id); ok {
		return n.Version
	}
	return 0
}

// exactFitFor: a value for which x's delta about the single entry k is
// exactly size bytes (same search as gw.ExactFitValue, with x's real address).
func exactFitFor(x *gossip.Gossip, k string, version uint64, size int) string {
	me := x.LocalNode()
	for l := 1; l < size; l++ {
		b := make([]byte, l)
		for i := range b {
			b[i] = 'f'
		}
		enc, err := gossip.VEncodeDelta(gossip.VDeltaHeader{NodeID: me.ID, Addr: me.Addr},
			gossip.VDelta{{ID: me.ID, Addr: me.Addr, Entries: []gossip.Entry{{Key: k, Value: string(b), Version: version}}}}, 1<<20)
		if err == nil && len(enc) == size {
			return string(b)
		}
	}
	panic("no exact-fit value")
}

var _ = gw.ExactFitValue
