package main

import (
	"bufio"
	"io"
	"net"
	"strings"
	"time"
)

// tcpStampNode speaks the stamp protocol over a raw, already upgraded
// WebSocket connection: one masked binary frame "tcp:hello\n", the answer is
// one unmasked binary frame "STAMP <endpoint> <upstream> <node> tcp:hello".
// Returns the node that served the tunnel ("" if the exchange failed).
func tcpStampNode(c net.Conn, br *bufio.Reader) string {
	_ = c.SetDeadline(time.Now().Add(10 * time.Second))
	payload := []byte("tcp:hello\n")
	mask := []byte{7, 11, 13, 17}
	frame := []byte{0x82, 0x80 | byte(len(payload)), mask[0], mask[1], mask[2], mask[3]}
	for i, b := range payload {
		frame = append(frame, b^mask[i%4])
	}
	if _, err := c.Write(frame); err != nil {
		return ""
	}
	var line []byte
	for len(line) == 0 || line[len(line)-1] != '\n' {
		hdr := make([]byte, 2)
		if _, err := io.ReadFull(br, hdr); err != nil {
			return ""
		}
		n := int(hdr[1] & 0x7f)
		if n >= 126 || hdr[1]&0x80 != 0 {
			return ""
		}
		buf := make([]byte, n)
		if _, err := io.ReadFull(br, buf); err != nil {
			return ""
		}
		if hdr[0]&0x0f == 0x8 {
			return "" // close frame
		}
		line = append(line, buf...)
	}
	f := strings.Fields(string(line))
	if len(f) < 5 || f[0] != "STAMP" {
		return ""
	}
	return f[3]
}
