// vcheck runs one property check against the piko tree at /repo.
package main

import (
	"fmt"
	"os"
)

type checkFn func(args []string) int

var checks = map[string]checkFn{}

func register(name string, f checkFn) { checks[name] = f }

func main() {
	if len(os.Args) < 2 {
		fmt.Fprintln(os.Stderr, "usage: vcheck <check> [args]")
		os.Exit(2)
	}
	f, ok := checks[os.Args[1]]
	if !ok {
		fmt.Fprintf(os.Stderr, "HARNESS-ERROR unknown check %q\n", os.Args[1])
		os.Exit(2)
	}
	os.Exit(f(os.Args[2:]))
}
