package main

import (
	"fmt"
	"time"

	"github.com/andydunstall/piko/pkg/gossip"
	"verifharness/internal/evid"
)

// c11OwnIdentity: what the cluster remembers about a PREVIOUS incarnation of
// the local node id (a restarted pod keeps its name) never changes the local
// node: for every short history of the old incarnation (writes, deletes,
// graceful leave) that a peer has learned in full, and every short history of
// the new one, every order of the exchanges through which the peer's memory
// reaches the new incarnation (reply to its digest, the peer's digest, both).
// The local node is never marked left by anyone else, never flagged, never
// removed, and its published state stays what it wrote itself.
func c11OwnIdentity(run *evid.Run, prop string) (cases int) {
	type op struct{ kind, k, v string }
	oldOps := []op{{"up", "a", "1"}, {"up", "b", "2"}, {"del", "a", ""}, {"leave", "", ""}}
	newOps := []op{{"up", "a", "9"}, {"up", "c", "3"}}
	apply := func(s *gossip.VClusterState, o op) {
		switch o.kind {
		case "up":
			s.UpsertLocal(o.k, o.v)
		case "del":
			s.DeleteLocal(o.k)
		case "leave":
			s.LeaveLocal()
		}
	}
	var seqs func(alpha []op, n int) [][]op
	seqs = func(alpha []op, n int) [][]op {
		out := [][]op{nil}
		if n == 0 {
			return out
		}
		for _, rest := range seqs(alpha, n-1) {
			if len(rest) == n-1 {
				for _, o := range alpha {
					out = append(out, append(append([]op(nil), rest...), o))
				}
			}
		}
		return out
	}
	exchanges := [][]string{{"delta"}, {"digest"}, {"delta", "digest"}, {"digest", "delta"}, {"delta", "delta"}}
	for _, oh := range seqs(oldOps, 4) {
		for _, nh := range seqs(newOps, 2) {
			for _, ex := range exchanges {
				cases++
				old := gossip.VNewClusterState("nL", "10.0.0.9:7000", nopFD{}, sharedGossipMetrics, nopWatcher{})
				old.UpsertLocal("proxy_addr", "p-old")
				for _, o := range oh {
					apply(old, o)
				}
				peer := gossip.VNewClusterState("nP", "10.0.0.1:7000", nopFD{}, sharedGossipMetrics, nopWatcher{})
				peer.UpsertLocal("proxy_addr", "p-peer")
				peer.ApplyDelta(old.LocalDelta())
				nw := gossip.VNewClusterState("nL", "10.0.0.9:7000", nopFD{}, sharedGossipMetrics, nopWatcher{})
				nw.UpsertLocal("proxy_addr", "p-new")
				for _, o := range nh {
					apply(nw, o)
				}
				pre := descNodeState(nw.LocalNode())
				desc := fmt.Sprintf("previous incarnation did %v and is remembered by a peer; the restarted node did %v; exchanges %v", oh, nh, ex)
				bad := func(sig, msg string) {
					run.Violation(prop, sig, desc+": "+msg, map[string]any{"engine": "E3-C11-self", "old": fmt.Sprint(oh), "new": fmt.Sprint(nh), "exchanges": ex})
				}
				for _, e := range ex {
					switch e {
					case "delta":
						nw.ApplyDelta(peer.Delta(nw.Digest(), true))
					case "digest":
						nw.ApplyDigest(peer.Digest())
					}
					nw.UpdateLiveness(float64(gossip.VSuspicionThreshold))
					nw.RemoveExpiredAt(time.Now().Add(24 * time.Hour))
				}
				ln, ok := nw.Node("nL")
				if !ok {
					bad("local-node-removed", "the local node is gone from its own view")
					continue
				}
				if ln.Left {
					bad("local-node-marked-left-by-peer", "the local node is marked left although it never left (the previous incarnation did)")
				} else if ln.Unreachable {
					bad("local-node-flagged", "the local node is flagged unreachable")
				} else if post := descNodeState(nw.LocalNode()); post != pre {
					bad("local-state-changed-by-peer", fmt.Sprintf("the local node's published state changed from %s to %s without a local write", pre, post))
				}
			}
		}
	}
	return
}
