package main

import (
	"fmt"
	"strings"

	"github.com/andydunstall/piko/pkg/gossip"
	"verifharness/internal/evid"
)

// C17 bulk: the number of keys is a dimension too. Owners with n keys (around
// every power-of-two-ish boundary up to 300), a third of them deleted again,
// with and without a compaction in between; observers synchronising before
// and/or after the compaction, in one whole delta (the join stream) or through
// datagram-sized deltas until nothing changes. Every observer must end with
// exactly the owner's live keys.
func c17Bulk(run *evid.Run) (cases int) {
	sizes := []int{1, 2, 63, 64, 65, 100, 127, 128, 129, 200, 255, 256, 257, 300}
	if run.Thorough() {
		sizes = append(sizes, 511, 512, 513, 1000)
	}
	for _, n := range sizes {
		for _, compact := range []string{"never", "before-sync", "between-syncs"} {
			for _, path := range []string{"whole-delta", "datagrams"} {
				cases++
				owner := gossip.VNewClusterState("nX", "10.0.0.1:7000", nopFD{}, sharedGossipMetrics, nopWatcher{})
				obs := gossip.VNewClusterState("nO", "10.0.0.2:7000", nopFD{}, sharedGossipMetrics, nopWatcher{})
				ref := map[string]string{}
				// the owner also relays a third node whose entries have different
				// sizes: the observer is behind on two nodes at once
				owner.ApplyDelta(gossip.VDelta{{ID: "nY", Addr: "10.0.0.3:7000", Entries: []gossip.Entry{
					{Key: "p0", Value: "v", Version: 1},
					{Key: "p1", Value: "a-value-that-is-quite-a-bit-longer-than-the-others-around-it-0123456789", Version: 2},
					{Key: "p2", Value: "v", Version: 3},
				}}})
				write := func(from, to int) {
					for i := from; i < to; i++ {
						k := fmt.Sprintf("key-%04d", i)
						v := fmt.Sprint(i)
						if i%20 == 7 {
							// now and then a value much larger than its neighbours
							v = fmt.Sprintf("%d-%s", i, strings.Repeat("L", 300))
						}
						owner.UpsertLocal(k, v)
						ref[k] = v
					}
					for i := from; i < to; i += 3 {
						k := fmt.Sprintf("key-%04d", i)
						owner.DeleteLocal(k)
						delete(ref, k)
					}
				}
				sync := func() string {
					if path == "whole-delta" {
						syncObserver(owner, obs)
						return ""
					}
					// datagram-sized deltas through the real codec, until the observer's
					// digest stops changing
					for round := 0; round < 4*n+20; round++ {
						d := owner.Delta(obs.Digest(), true)
						b, err := gossip.VEncodeDelta(gossip.VDeltaHeader{NodeID: "nX", Addr: "10.0.0.1:7000"}, d, 1400)
						if err != nil {
							return "encode: " + err.Error()
						}
						_, dec, err := gossip.VDecodeDelta(b)
						if err != nil {
							return "decode: " + err.Error()
						}
						before := fmt.Sprint(obs.Digest())
						obs.ApplyDelta(dec)
						if fmt.Sprint(obs.Digest()) == before {
							return ""
						}
					}
					return "did not settle"
				}
				half := n / 2
				write(0, half)
				if compact == "before-sync" {
					owner.CompactLocal(1)
				}
				msg := sync()
				write(half, n)
				if compact == "between-syncs" {
					owner.CompactLocal(1)
				}
				if msg == "" {
					msg = sync()
				}
				desc := fmt.Sprintf("owner with %d keys (every third deleted), compaction %s, observer synchronising by %s twice", n, compact, path)
				if msg != "" {
					run.Violation("C17", "bulk-sync-failed", desc+": "+msg, map[string]any{"engine": "E3-C17-bulk", "n": n, "compact": compact, "path": path})
					continue
				}
				if got, want := mapStr(live(owner.LocalNode())), mapStr(ref); got != want {
					run.Violation("C17", "own-state-differs-from-reference", fmt.Sprintf("%s: the owner's live keys differ from what was written (%d vs %d keys)", desc, len(live(owner.LocalNode())), len(ref)), map[string]any{"engine": "E3-C17-bulk", "n": n, "compact": compact, "path": path})
					continue
				}
				ns, ok := obs.Node("nX")
				if !ok {
					run.Violation("C17", "observer-differs-from-owner", desc+": the observer does not know the owner", map[string]any{"engine": "E3-C17-bulk", "n": n, "compact": compact, "path": path})
					continue
				}
				if got, want := mapStr(live(ns)), mapStr(ref); got != want {
					run.Violation("C17", "observer-differs-from-owner", fmt.Sprintf("%s: the observer shows %d live keys of the owner, the owner has %d (observer at version %d, owner at %d)", desc, len(live(ns)), len(ref), ns.Version, owner.LocalNode().Version), map[string]any{"engine": "E3-C17-bulk", "n": n, "compact": compact, "path": path})
					continue
				}
				if len(obs.Nodes()) != 3 {
					run.Violation("C17", "observer-differs-from-owner", fmt.Sprintf("%s: the observer ends up knowing %d nodes, there are 3", desc, len(obs.Nodes())), map[string]any{"engine": "E3-C17-bulk", "n": n, "compact": compact, "path": path})
				}
			}
		}
	}
	return cases
}

// c17TwoNodes: an observer that is behind on two nodes at once - the owner
// (entries of very different sizes) and a node the owner relays - and catches
// up through datagrams of every size in a sweep. The digest lists the owner
// first, so its delta comes first in the datagram and the relayed node's after
// it. Whatever fits, the observer ends with exactly the owner's live keys and
// knows exactly the nodes there are.
func c17TwoNodes(run *evid.Run) (cases int) {
	for max := 180; max <= 900; max += 9 {
		cases++
		owner := gossip.VNewClusterState("nX", "10.0.0.1:7000", nopFD{}, sharedGossipMetrics, nopWatcher{})
		obs := gossip.VNewClusterState("nO", "10.0.0.2:7000", nopFD{}, sharedGossipMetrics, nopWatcher{})
		ref := map[string]string{}
		for i, v := range []string{"1", strings.Repeat("B", 300), "3", "", strings.Repeat("C", 120), "6"} {
			k := fmt.Sprintf("k%d", i)
			owner.UpsertLocal(k, v)
			ref[k] = v
		}
		owner.DeleteLocal("k2")
		delete(ref, "k2")
		owner.ApplyDelta(gossip.VDelta{{ID: "nY", Addr: "10.0.0.3:7000", Entries: []gossip.Entry{
			{Key: "p0", Value: "v", Version: 1}, {Key: "p1", Value: "w", Version: 2}, {Key: "p2", Value: "x", Version: 3},
		}}})
		desc := fmt.Sprintf("max packet size %d: observer behind on the owner (entry sizes 1..300 bytes) and on a relayed node", max)
		msg := ""
		for round := 0; round < 60 && msg == ""; round++ {
			dig := gossip.VDigest{}
			for _, id := range []string{"nX", "nY"} {
				e := gossip.VDigestEntry{ID: id}
				if ns, ok := obs.Node(id); ok {
					e.Version = ns.Version
				}
				dig = append(dig, e)
			}
			d := owner.Delta(dig, false)
			if len(d) == 0 {
				break
			}
			b, err := gossip.VEncodeDelta(gossip.VDeltaHeader{NodeID: "nX", Addr: "10.0.0.1:7000"}, d, max)
			if err != nil {
				msg = "encode: " + err.Error()
				break
			}
			_, dec, err := gossip.VDecodeDelta(b)
			if err != nil {
				msg = "the observer cannot decode the owner's datagram: " + err.Error()
				break
			}
			obs.ApplyDelta(dec)
		}
		fail := func(m string) {
			run.Violation("C17", "observer-differs-from-owner", desc+": "+m, map[string]any{"engine": "E3-C17-bulk", "two_nodes_max": max})
		}
		if msg != "" {
			fail(msg)
			continue
		}
		for _, md := range obs.Nodes() {
			if md.ID != "nO" && md.ID != "nX" && md.ID != "nY" {
				fail(fmt.Sprintf("the observer now knows a node %q that does not exist", md.ID))
			}
		}
		if ns, ok := obs.Node("nX"); ok {
			// whatever arrived so far is the owner's: no foreign keys, no wrong values
			for k, v := range live(ns) {
				if want, there := ref[k]; !there || want != v {
					fail(fmt.Sprintf("the observer shows %s=%q for the owner, which the owner never wrote (or deleted)", k, v))
					break
				}
			}
			if ns.Version == owner.LocalNode().Version {
				if got, want := mapStr(live(ns)), mapStr(ref); got != want {
					fail(fmt.Sprintf("the observer is at the owner's version %d but shows %s, the owner has %s", ns.Version, got, want))
				}
			}
		}
	}
	return cases
}
