package main

import (
	"fmt"

	"github.com/andydunstall/piko/pkg/gossip"
	"verifharness/internal/evid"
)

// C17 bulk: the number of keys is a dimension too. Owners with n keys (around
// every power-of-two-ish boundary up to 300), a third of them deleted again,
// with and without a compaction in between; observers synchronising before
// and/or after the compaction, in one whole delta (the join stream) or through
// datagram-sized deltas until nothing changes. Every observer must end with
// exactly the owner's live keys.
func c17Bulk(run *evid.Run) (cases int) {
	sizes := []int{1, 2, 63, 64, 65, 100, 127, 128, 129, 200, 255, 256, 257, 300}
	if run.Thorough() {
		sizes = append(sizes, 511, 512, 513, 1000)
	}
	for _, n := range sizes {
		for _, compact := range []string{"never", "before-sync", "between-syncs"} {
			for _, path := range []string{"whole-delta", "datagrams"} {
				cases++
				owner := gossip.VNewClusterState("nX", "10.0.0.1:7000", nopFD{}, sharedGossipMetrics, nopWatcher{})
				obs := gossip.VNewClusterState("nO", "10.0.0.2:7000", nopFD{}, sharedGossipMetrics, nopWatcher{})
				ref := map[string]string{}
				write := func(from, to int) {
					for i := from; i < to; i++ {
						k := fmt.Sprintf("key-%04d", i)
						owner.UpsertLocal(k, fmt.Sprint(i))
						ref[k] = fmt.Sprint(i)
					}
					for i := from; i < to; i += 3 {
						k := fmt.Sprintf("key-%04d", i)
						owner.DeleteLocal(k)
						delete(ref, k)
					}
				}
				sync := func() string {
					if path == "whole-delta" {
						syncObserver(owner, obs)
						return ""
					}
					// datagram-sized deltas through the real codec, until the observer's
					// digest stops changing
					for round := 0; round < 4*n+20; round++ {
						d := owner.Delta(obs.Digest(), true)
						b, err := gossip.VEncodeDelta(gossip.VDeltaHeader{NodeID: "nX", Addr: "10.0.0.1:7000"}, d, 1400)
						if err != nil {
							return "encode: " + err.Error()
						}
						_, dec, err := gossip.VDecodeDelta(b)
						if err != nil {
							return "decode: " + err.Error()
						}
						before := fmt.Sprint(obs.Digest())
						obs.ApplyDelta(dec)
						if fmt.Sprint(obs.Digest()) == before {
							return ""
						}
					}
					return "did not settle"
				}
				half := n / 2
				write(0, half)
				if compact == "before-sync" {
					owner.CompactLocal(1)
				}
				msg := sync()
				write(half, n)
				if compact == "between-syncs" {
					owner.CompactLocal(1)
				}
				if msg == "" {
					msg = sync()
				}
				desc := fmt.Sprintf("owner with %d keys (every third deleted), compaction %s, observer synchronising by %s twice", n, compact, path)
				if msg != "" {
					run.Violation("C17", "bulk-sync-failed", desc+": "+msg, map[string]any{"engine": "E3-C17-bulk", "n": n, "compact": compact, "path": path})
					continue
				}
				if got, want := mapStr(live(owner.LocalNode())), mapStr(ref); got != want {
					run.Violation("C17", "own-state-differs-from-reference", fmt.Sprintf("%s: the owner's live keys differ from what was written (%d vs %d keys)", desc, len(live(owner.LocalNode())), len(ref)), map[string]any{"engine": "E3-C17-bulk", "n": n, "compact": compact, "path": path})
					continue
				}
				ns, ok := obs.Node("nX")
				if !ok {
					run.Violation("C17", "observer-differs-from-owner", desc+": the observer does not know the owner", map[string]any{"engine": "E3-C17-bulk", "n": n, "compact": compact, "path": path})
					continue
				}
				if got, want := mapStr(live(ns)), mapStr(ref); got != want {
					run.Violation("C17", "observer-differs-from-owner", fmt.Sprintf("%s: the observer shows %d live keys of the owner, the owner has %d (observer at version %d, owner at %d)", desc, len(live(ns)), len(ref), ns.Version, owner.LocalNode().Version), map[string]any{"engine": "E3-C17-bulk", "n": n, "compact": compact, "path": path})
				}
			}
		}
	}
	return cases
}
