package main

import (
	"context"
	"fmt"
	"strings"
	"sync"
	"time"

	"github.com/andydunstall/piko/server/config"
	"verifharness/internal/e4"
	"verifharness/internal/evid"
)

// C01: requests reach only upstreams of the addressed endpoint.

var c01Endpoints = []string{"e1", "e2"}

type c01Addr struct {
	Mode     string `json:"mode"`
	Endpoint string `json:"endpoint"`
	Other    string `json:"host_label,omitempty"`
}

func c01Addressings() []c01Addr {
	return []c01Addr{
		{"host", "e1", ""}, {"host", "e2", ""}, {"header", "e1", ""}, {"header", "e2", ""},
		{"both", "e1", "e2"}, {"both", "e2", "e1"}, {"tcp", "e1", ""}, {"tcp", "e2", ""},
		// near misses: never an upstream of e1/e2; e1x has its own upstream
		{"host", "e", ""}, {"header", "E1", ""}, {"header", "e1x", ""}, {"tcp", "e1x", ""}, {"tcp", "e", ""}, {"host", "e1x", ""},
		// E1 differs from e1 only in case and has its own upstream
		{"host", "E1", ""}, {"tcp", "E1", ""}, {"both", "E1", "e1"}, {"both", "e1", "E1"},
		// the client declares the endpoint header hop-by-hop (Connection: x-piko-endpoint):
		// whichever node ends up serving, it is still the endpoint the header named
		{"both+conn", "e1", "e2"}, {"both+conn", "e2", "e1"}, {"header+conn", "e1", ""},
	}
}

type c01Case struct {
	Place int     `json:"placement"` // bit (k*N+i): node i has an upstream of endpoint k
	View  string  `json:"view"`
	Entry int     `json:"entry"`
	Addr  c01Addr `json:"addressing"`
}

type c01World struct {
	n    int
	cl   *e4.CompCluster
	ups  map[string]*e4.StampUpstream // "ep@node"
	has  map[string]bool
	prev int
}

func newC01World(n int) *c01World { return newC01WorldCfg(n, e4.DefaultProxyConfig()) }

func newC01WorldCfg(n int, pc config.ProxyConfig) *c01World {
	w := &c01World{n: n, cl: e4.NewCompCluster(n, pc, nil), ups: map[string]*e4.StampUpstream{}, has: map[string]bool{}}
	for i := 0; i < n; i++ {
		for _, ep := range append(append([]string{}, c01Endpoints...), "e1x", "E1") {
			w.ups[fmt.Sprintf("%s@%d", ep, i)] = &e4.StampUpstream{Endpoint: ep, Name: fmt.Sprintf("u-%s-%d", ep, i), Node: fmt.Sprintf("n%d", i)}
		}
	}
	// the near-miss endpoint has one upstream on the last node, known to all
	w.cl.Nodes[n-1].Mgr.AddConn(w.ups[fmt.Sprintf("e1x@%d", n-1)])
	for i := 0; i < n-1; i++ {
		w.cl.Believe(i, n-1, "e1x", 1)
	}
	// ... and so has E1, on the first node
	w.cl.Nodes[0].Mgr.AddConn(w.ups["E1@0"])
	for i := 1; i < n; i++ {
		w.cl.Believe(i, 0, "E1", 1)
	}
	return w
}

func (w *c01World) placed(place, k, i int) bool { return place&(1<<uint(k*w.n+i)) != 0 }

func (w *c01World) configure(c c01Case) {
	for k, ep := range c01Endpoints {
		for i := 0; i < w.n; i++ {
			key := fmt.Sprintf("%s@%d", ep, i)
			want := w.placed(c.Place, k, i)
			if want && !w.has[key] {
				w.cl.Nodes[i].Mgr.AddConn(w.ups[key])
			} else if !want && w.has[key] {
				w.cl.Nodes[i].Mgr.RemoveConn(w.ups[key])
			}
			w.has[key] = want
		}
	}
	for i := 0; i < w.n; i++ {
		for j := 0; j < w.n; j++ {
			if i == j {
				continue
			}
			for k, ep := range c01Endpoints {
				b := false
				switch c.View {
				case "truth":
					b = w.placed(c.Place, k, j)
				case "all":
					b = true
				case "none":
					b = false
				case "swapped": // believes j serves ep iff j really serves the OTHER endpoint
					b = w.placed(c.Place, 1-k, j)
				case "stale": // the complement of the truth
					b = !w.placed(c.Place, k, j)
				}
				cnt := 0
				if b {
					cnt = 1
				}
				w.cl.Believe(i, j, ep, cnt)
			}
		}
	}
}

func (w *c01World) run(c c01Case) (sig, msg string) {
	w.configure(c)
	ad := e4.Addressing{Mode: c.Addr.Mode, Endpoint: c.Addr.Endpoint, Other: c.Addr.Other}
	if m, ok := strings.CutSuffix(ad.Mode, "+conn"); ok {
		ad.Mode, ad.Extra = m, map[string]string{"Connection": "x-piko-endpoint"}
	}
	res := e4.Do(w.cl.Nodes[c.Entry].Addr, ad)
	desc := fmt.Sprintf("%+v -> %s", c, res)
	if res.Err != "" {
		return "request-failed", desc
	}
	ok := res.Status == 200 || res.Status == 101
	if ok {
		if res.Endpoint != c.Addr.Endpoint {
			return "delivered-to-wrong-endpoint", desc
		}
	} else if res.Status != 502 && res.Status != 400 {
		return "unexpected-status", desc
	}
	// with truthful views the endpoint is served iff some node has an upstream
	if c.View == "truth" {
		exists := false
		for k, ep := range c01Endpoints {
			if ep == c.Addr.Endpoint {
				for i := 0; i < w.n; i++ {
					if w.placed(c.Place, k, i) {
						exists = true
					}
				}
			}
		}
		if c.Addr.Endpoint == "e1x" || c.Addr.Endpoint == "E1" {
			exists = true
		}
		if exists && !ok {
			return "not-served-although-upstream-exists", desc
		}
		if !exists && res.Status != 502 {
			return "no-upstream-not-502", desc
		}
	}
	return "", ""
}

func c01Component(run *evid.Run) (evals, nontrivial int) {
	n := 3
	views := []string{"truth", "all", "none", "swapped", "stale"}
	var cases []c01Case
	for p := 0; p < 1<<uint(2*n); p++ {
		for _, v := range views {
			for e := 0; e < n; e++ {
				for _, a := range c01Addressings() {
					cases = append(cases, c01Case{Place: p, View: v, Entry: e, Addr: a})
				}
			}
		}
	}
	ch := make(chan c01Case, 64)
	var wg sync.WaitGroup
	var mu sync.Mutex
	distinct := map[string]bool{}
	for k := 0; k < 8; k++ {
		wg.Add(1)
		go func() {
			defer wg.Done()
			w := newC01World(n)
			defer w.cl.Close()
			for c := range ch {
				sig, msg := w.run(c)
				for r := 0; r < 4 && sig == "request-failed"; r++ {
					sig, msg = w.run(c)
				}
				mu.Lock()
				evals++
				// non-trivial: both endpoints have upstreams somewhere, so
				// misrouting is observable
				if c.Place&0b111 != 0 && c.Place>>3 != 0 {
					distinct[fmt.Sprintf("%d/%s/%d/%v", c.Place, c.View, c.Entry, c.Addr)] = true
				}
				if evals%3989 == 1 {
					run.Sample(c)
				}
				mu.Unlock()
				if sig != "" {
					run.Violation("C01", sig, msg, map[string]any{"engine": "E4-C01", "case": c})
				}
			}
		}()
	}
	for _, c := range cases {
		ch <- c
	}
	close(ch)
	wg.Wait()
	return evals, len(distinct)
}

// c01Settled: full cluster of real servers and real client listeners; walk
// all placements in Gray-code order, wait until routing information has
// settled, then every entry node x addressing must serve / 502 correctly.
func c01Settled(run *evid.Run, n int, churn bool) (evals, placements int) {
	nodes, err := e4.StartCluster(n, nil)
	if err != nil {
		evid.Fatal("start cluster: %v", err)
	}
	defer func() {
		for _, nd := range nodes {
			nd.Stop()
		}
	}()
	ctx := context.Background()
	lns := map[int][]*e4.StampListener{}
	bits := 2 * n
	cur := 0
	settle := func(place int) bool {
		return e4.WaitFor(30*time.Second, func() bool {
			for _, o := range nodes {
				for j, x := range nodes {
					nd, ok := o.State().Node(x.ID)
					if !ok {
						return false
					}
					for k, ep := range c01Endpoints {
						// a cell that is on holds one or two listeners
						want := len(lns[k*n+j])
						if nd.Endpoints[ep] != want {
							return false
						}
					}
				}
			}
			return true
		})
	}
	for step := 0; step < 1<<uint(bits); step++ {
		place := step ^ (step >> 1) // Gray code
		diff := place ^ cur
		// churn: requests in flight while the listener change is made; only the
		// safety clause is checked for them
		var churnWG sync.WaitGroup
		if churn {
			for q := 0; q < 16; q++ {
				churnWG.Add(1)
				go func(q int) {
					defer churnWG.Done()
					a := c01Addressings()[(q+step)%8]
					res := e4.Do(nodes[(q+step)%n].ProxyAddr(), e4.Addressing{Mode: a.Mode, Endpoint: a.Endpoint, Other: a.Other})
					// a tunnel that was cut by the very disconnect under test has no
					// stamp; only an answer from an upstream can be a wrong answer
					ok := (res.Status == 200 || res.Status == 101) && res.Err == "" && res.Endpoint != ""
					if ok && res.Endpoint != a.Endpoint {
						run.Violation("C01", "delivered-to-wrong-endpoint", fmt.Sprintf("during churn at placement step %d: %+v -> %s", step, a, res), map[string]any{"engine": "E4-C01-settled", "placement": place, "nodes": n})
					}
				}(q)
			}
			evals += 16
		}
		for b := 0; b < bits; b++ {
			if diff&(1<<uint(b)) == 0 {
				continue
			}
			k, i := b/n, b%n
			if place&(1<<uint(b)) != 0 {
				// every other time two upstreams of the endpoint attach to the node
				for c := 0; c < 1+step%2; c++ {
					l, err := e4.Listen(ctx, nodes[i].UpstreamAddr(), c01Endpoints[k], fmt.Sprintf("l-%s-%d-%d", c01Endpoints[k], i, c), e4.ListenOpts{})
					if err != nil {
						evid.Fatal("listen: %v", err)
					}
					lns[b] = append(lns[b], l)
				}
			} else {
				for _, l := range lns[b] {
					_ = l.Ln.Shutdown()
				}
				delete(lns, b)
			}
		}
		cur = place
		placements++
		churnWG.Wait()
		if !settle(place) {
			var views []string
			for _, nd := range nodes {
				views = append(views, e4.ViewOf(nd))
			}
			run.Violation("C01", "routing-did-not-settle", fmt.Sprintf("placement %b: routing tables did not settle within 30s: %v", place, views), map[string]any{"engine": "E4-C01-settled", "placement": place, "nodes": n})
			return
		}
		for e := range nodes {
			for _, a := range c01Addressings()[:8] {
				evals++
				res := e4.Do(nodes[e].ProxyAddr(), e4.Addressing{Mode: a.Mode, Endpoint: a.Endpoint, Other: a.Other})
				for r := 0; r < 3 && !(res.Status == 200 || res.Status == 101) && !e4.AllActive(nodes); r++ {
					// a node was suspected for a moment (starved machine): once everybody is
					// active again and the tables have settled, decide afresh
					e4.WaitAllActive(nodes, 30*time.Second)
					settle(place)
					res = e4.Do(nodes[e].ProxyAddr(), e4.Addressing{Mode: a.Mode, Endpoint: a.Endpoint, Other: a.Other})
				}
				exists := false
				for k, ep := range c01Endpoints {
					if ep == a.Endpoint && place&(((1<<uint(n))-1)<<uint(k*n)) != 0 {
						exists = true
					}
				}
				desc := fmt.Sprintf("placement %0*b entry %d %+v -> %s", bits, place, e, a, res)
				ok := res.Status == 200 || res.Status == 101
				switch {
				case res.Err != "":
					run.Violation("C01", "request-failed", desc, map[string]any{"engine": "E4-C01-settled", "placement": place, "nodes": n})
				case ok && res.Endpoint != a.Endpoint:
					run.Violation("C01", "delivered-to-wrong-endpoint", desc, map[string]any{"engine": "E4-C01-settled", "placement": place, "nodes": n})
				case exists && !ok:
					run.Violation("C01", "not-served-although-upstream-exists", desc, map[string]any{"engine": "E4-C01-settled", "placement": place, "nodes": n})
				case !exists && res.Status != 502:
					run.Violation("C01", "no-upstream-not-502", desc, map[string]any{"engine": "E4-C01-settled", "placement": place, "nodes": n})
				}
			}
		}
	}
	for _, ls := range lns {
		for _, l := range ls {
			_ = l.Ln.Shutdown()
		}
	}
	lns = map[int][]*e4.StampListener{}
	if !churn && n >= 2 {
		evals += c01GoAway(run, nodes, func() bool { return settle(0) })
		evals += c01TLS(run, "C01")
		evals += c01Dialer(run)
	}
	return
}

// c01GoAway: a listener that stops accepting with Close() keeps its
// connection to the node (tunnels in flight survive), so nothing but the
// refused dial tells the node. Whatever route finds out, requests must end up
// at the listener that is still there.
func c01GoAway(run *evid.Run, nodes []*e4.FullNode, settleEmpty func() bool) (evals int) {
	n := len(nodes)
	ctx := context.Background()
	for _, mode := range []string{"tcp", "header", "host"} {
		for _, ep := range c01Endpoints {
			a, err := e4.Listen(ctx, nodes[0].UpstreamAddr(), ep, "closing", e4.ListenOpts{})
			if err != nil {
				evid.Fatal("listen: %v", err)
			}
			b, err := e4.Listen(ctx, nodes[n-1].UpstreamAddr(), ep, "staying", e4.ListenOpts{})
			if err != nil {
				evid.Fatal("listen: %v", err)
			}
			known := e4.WaitFor(30*time.Second, func() bool {
				for _, o := range nodes {
					for _, x := range []*e4.FullNode{nodes[0], nodes[n-1]} {
						nd, ok := o.State().Node(x.ID)
						if !ok || nd.Endpoints[ep] != 1 {
							return false
						}
					}
				}
				return true
			})
			if !known {
				evid.Fatal("go-away phase: listeners not visible everywhere")
			}
			_ = a.Ln.Close()
			for e := range nodes {
				served := false
				flapResets := 0
				var last e4.Result
				for attempt := 0; attempt < 40 && !served; attempt++ {
					if attempt == 39 && flapResets < 3 && !e4.AllActive(nodes) {
						e4.WaitAllActive(nodes, 30*time.Second) // starved machine: a healthy node was suspected
						flapResets++
						attempt = 0
					}
					evals++
					last = e4.Do(nodes[e].ProxyAddr(), e4.Addressing{Mode: mode, Endpoint: ep})
					ok := (last.Status == 200 || last.Status == 101) && last.Err == ""
					if ok && last.Endpoint != ep {
						run.Violation("C01", "delivered-to-wrong-endpoint", fmt.Sprintf("go-away phase %s/%s entry %d -> %s", mode, ep, e, last), map[string]any{"engine": "E4-C01-settled", "phase": "go-away", "nodes": n})
					}
					served = ok
					if !served {
						time.Sleep(50 * time.Millisecond)
					}
				}
				if !served {
					run.Violation("C01", "not-served-although-upstream-exists", fmt.Sprintf("listener of %s on node 0 stopped accepting (Close), another listens on node %d: 40 %s requests entering at node %d over 2s were all refused, last %s; views %s", ep, n-1, mode, e, last, e4.ViewOf(nodes[e])), map[string]any{"engine": "E4-C01-settled", "phase": "go-away", "nodes": n})
				}
			}
			_ = a.Ln.Shutdown()
			_ = b.Ln.Shutdown()
			if !settleEmpty() {
				evid.Fatal("go-away phase: routing did not drain")
			}
		}
	}
	return evals
}

func init() {
	register("C01", func(args []string) int {
		run := evid.NewRun("C01", "exploration")
		evals, nontriv := c01Component(run)
		al, st := c01AccessLog(run), c01Statuses(run)
		evals += al + st
		nontriv += al + st
		bu := c01Burst(run)
		evals += bu
		nontriv += bu
		fmt.Printf("  C01 component cluster: cases=%d non-trivial=%d\n", evals, nontriv)
		sizes := []int{3}
		if run.Thorough() {
			sizes = []int{1, 2, 3, 4}
		}
		e2, pl := 0, 0
		for _, n := range sizes {
			for _, churn := range []bool{false, true} {
				if run.Violations() > 0 || (churn && !run.Thorough() && false) {
					continue
				}
				a, b := c01Settled(run, n, churn)
				e2 += a
				pl += b
				fmt.Printf("  C01 settled full cluster (%d nodes, churn=%v): placements=%d requests=%d\n", n, churn, b, a)
			}
		}
		run.Set("evaluations", evals+e2)
		run.Set("distinct_nontrivial", nontriv+pl)
		run.Set("rule", "component cluster (3 real proxies/managers/routing tables): all 64 placements of upstreams of two endpoints x 5 routing-view policies (truth, all, none, swapped, complement) x entry node x 21 addressings (Host label, x-piko-endpoint, conflicting, TCP route, near-miss names), non-trivial = both endpoints have upstreams; full cluster (real servers, gossip, client listeners): Gray-code walk over every placement, settle, every entry x 8 addressings; then per endpoint x {tcp, header, host}: a listener stops accepting with Close() (connection kept) while another node has a listener, every entry must end up served")
		run.Set("settled_placements", pl)
		run.Set("exhaustive", true)
		run.Assume("interleaving of connects/disconnects with in-flight requests is free-running (lock-level interleavings of Select/AddConn/RemoveConn are enumerated by C15/C20)")
		return run.Finish()
	})
	replayers["E4-C01"] = func(path string) int {
		var doc struct {
			Replay struct {
				Case c01Case `json:"case"`
			} `json:"replay"`
		}
		readJSON(path, &doc)
		w := newC01World(3)
		defer w.cl.Close()
		for i := 0; i < 2; i++ {
			sig, msg := w.run(doc.Replay.Case)
			fmt.Println(sig, msg)
		}
		return 0
	}
}
