package main

import (
	"fmt"
	"strings"

	"verifharness/internal/e4"
	"verifharness/internal/evid"
)

// c08MoveSequences: the upstreams of an endpoint move between two nodes
// (reconnect through a load balancer, shedding, rolling restart). Every
// sequence of three placements out of {node 0, node 1, both, none}; after
// each placement (views converged) two requests enter at each node. As long
// as an upstream is connected somewhere the request is answered by an upstream
// that is connected now; with none connected Piko answers 502.
func c08MoveSequences(run *evid.Run, evals, nontrivial *int) {
	places := []string{"n0", "n1", "both", "none"}
	var seqs [][]string
	for _, a := range places {
		for _, b := range places {
			for _, c := range places {
				seqs = append(seqs, []string{a, b, c})
			}
		}
	}
	for _, seq := range seqs {
		cl := e4.NewCompCluster(2, e4.DefaultProxyConfig(), nil)
		var cur [2]*e4.StampUpstream
		bad := ""
		for step, p := range seq {
			for i := 0; i < 2; i++ {
				want := p == "both" || p == fmt.Sprintf("n%d", i)
				if want && cur[i] == nil {
					u := &e4.StampUpstream{Endpoint: "e1", Name: fmt.Sprintf("u%d.%d", i, step), Node: fmt.Sprintf("n%d", i)}
					cl.Nodes[i].Mgr.AddConn(u)
					cur[i] = u
				}
				if !want && cur[i] != nil {
					cl.Nodes[i].Mgr.RemoveConn(cur[i])
					cur[i] = nil
				}
			}
			for i := 0; i < 2; i++ {
				cnt := 0
				if cur[1-i] != nil {
					cnt = 1
				}
				cl.Believe(i, 1-i, "e1", cnt)
			}
			for entry := 0; entry < 2 && bad == ""; entry++ {
				for k := 0; k < 2 && bad == ""; k++ {
					r := e4.Do(cl.Nodes[entry].Addr, e4.Addressing{Mode: "header", Endpoint: "e1"})
					*evals++
					if p == "none" {
						if r.Status != 502 {
							bad = fmt.Sprintf("step %d (no upstream connected), request %d via n%d -> %s, want 502", step+1, k+1, entry, r)
						}
						continue
					}
					okStamp := false
					for i := 0; i < 2; i++ {
						if cur[i] != nil && r.Upstream == cur[i].Name && r.Node == cur[i].Node {
							okStamp = true
						}
					}
					if r.Status != 200 || !okStamp {
						bad = fmt.Sprintf("step %d (upstreams now on %s), request %d via n%d -> %s", step+1, p, k+1, entry, r)
					}
				}
			}
			if bad != "" {
				break
			}
		}
		cl.Close()
		*nontrivial++
		if bad != "" {
			desc := "upstreams of e1 placed on " + strings.Join(seq, " then ")
			run.Violation("C08", "wrong-answer-after-upstream-moved", desc+": "+bad, map[string]any{"engine": "E4-C08", "failure_case": desc})
		}
	}
}
