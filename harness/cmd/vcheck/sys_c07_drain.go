package main

import (
	"bytes"
	"context"
	"fmt"
	"io"
	"net"
	"net/url"
	"time"

	"github.com/andydunstall/piko/client"
)

// drainingListenerKeepsTunnels: a real client listener (attached to node 1)
// with an established tunnel; its owner calls Close() - go-away: stop
// accepting, keep what is established. Other clients then dial the endpoint
// (and are refused). The established tunnel keeps carrying bytes both ways,
// exactly once and in order, and its close is seen as end-of-stream by the
// listener's application. entry is the node the dialer enters at.
func drainingListenerKeepsTunnels(w *tunnelWorld, entry int, ep string) string {
	up := &client.Upstream{URL: &url.URL{Scheme: "http", Host: w.nodes[1].UpstreamAddr()}}
	lctx, lcancel := context.WithTimeout(context.Background(), 20*time.Second)
	ln, err := up.Listen(lctx, ep)
	lcancel()
	if err != nil {
		return "harness: listen: " + err.Error()
	}
	type done struct {
		n   int64
		err error
	}
	echoed := make(chan done, 4)
	go func() {
		for {
			c, err := ln.Accept()
			if err != nil {
				return
			}
			go func() {
				n, err := io.Copy(c, c)
				c.Close()
				echoed <- done{n, err}
			}()
		}
	}()
	sch := "http"
	var tc = w.tls
	if tc != nil {
		sch = "https"
	}
	d := &client.Dialer{URL: &url.URL{Scheme: sch, Host: w.nodes[entry].ProxyAddr()}, TLSConfig: tc}
	var conn net.Conn
	ok := false
	for i := 0; i < 100 && !ok; i++ { // until the endpoint is known at the entry node
		ctx, cancel := context.WithTimeout(context.Background(), 5*time.Second)
		conn, err = d.Dial(ctx, ep)
		cancel()
		if err == nil {
			ok = true
		} else {
			time.Sleep(100 * time.Millisecond)
		}
	}
	if !ok {
		return "harness: tunnel never opened: " + err.Error()
	}
	defer conn.Close()
	sent := int64(0)
	trip := func(i int) error {
		msg := bytes.Repeat([]byte{byte('a' + i%26)}, 64)
		msg[0] = byte(i)
		_ = conn.SetDeadline(time.Now().Add(10 * time.Second))
		if _, err := conn.Write(msg); err != nil {
			return fmt.Errorf("write: %w", err)
		}
		sent += int64(len(msg))
		got := make([]byte, len(msg))
		if _, err := io.ReadFull(conn, got); err != nil {
			return fmt.Errorf("read echo: %w", err)
		}
		if !bytes.Equal(got, msg) {
			return fmt.Errorf("echo differs: sent %q got %q", msg[:8], got[:8])
		}
		return nil
	}
	for i := 0; i < 5; i++ {
		if err := trip(i); err != nil {
			return fmt.Sprintf("harness: round trip %d before the listener was closed: %v", i, err)
		}
	}
	_ = ln.Close() // go-away
	for i := 0; i < 5; i++ {
		if err := trip(5 + i); err != nil {
			return fmt.Sprintf("established tunnel broke after its listener stopped accepting (Close): round trip %d: %v", 5+i, err)
		}
	}
	// other clients dial the endpoint, at both nodes: refused, and none of the
	// established tunnel's business
	for k := 0; k < 3; k++ {
		for n := 0; n < 2; n++ {
			od := &client.Dialer{URL: &url.URL{Scheme: sch, Host: w.nodes[n].ProxyAddr()}, TLSConfig: tc}
			ctx, cancel := context.WithTimeout(context.Background(), 5*time.Second)
			if c, err := od.Dial(ctx, ep); err == nil {
				c.Close()
			}
			cancel()
		}
	}
	for i := 0; i < 20; i++ {
		if err := trip(10 + i); err != nil {
			return fmt.Sprintf("established tunnel broke after its listener stopped accepting (Close) and other clients dialled the endpoint: round trip %d: %v", 10+i, err)
		}
	}
	conn.Close()
	select {
	case r := <-echoed:
		if r.err != nil || r.n != sent {
			return fmt.Sprintf("the dialer closed after %d bytes; the listener's application saw %d bytes and then %v instead of end-of-stream", sent, r.n, r.err)
		}
	case <-time.After(20 * time.Second):
		return "the dialer closed the established tunnel; the draining listener's application never saw end-of-stream"
	}
	return ""
}
