package main

import (
	"fmt"
	"sync"
	"time"

	"github.com/andydunstall/piko/server/config"
	"verifharness/internal/e4"
	"verifharness/internal/evid"
)

// C06: at most one inter-node hop; local upstreams preferred. Component
// cluster of N real proxy servers + managers + routing tables; every belief
// matrix x placement (none / healthy / announced go-away) x entry node x route
// x forward-header variant.

type c06Case struct {
	N       int    `json:"nodes"`
	Beliefs int    `json:"beliefs"`   // bit (i*N+j): node i believes node j serves E
	Place   int    `json:"placement"` // base-3 digit i: 0 none, 1 healthy upstream, 2 upstream that announced go-away
	Entry   int    `json:"entry"`
	Mode    string `json:"mode"`    // header | tcp
	Forward string `json:"forward"` // value of the x-piko-forward header sent by the client: "" (absent), "true", "false"
	// Conn: a Connection header sent by the client naming a header as
	// hop-by-hop (the HTTP reverse proxy strips the headers named there)
	Conn string `json:"connection_header,omitempty"`
	// Log: access-log configuration of the proxies ("" = disabled, no filters)
	Log string `json:"access_log,omitempty"`
}

// c06LogConfigs: access-log settings filter headers for logging; they must
// not change what the routes see.
var c06LogConfigs = map[string]func(pc *config.ProxyConfig){
	"disabled+allow-list":          func(pc *config.ProxyConfig) { pc.AccessLog.RequestHeaders.AllowList = []string{"user-agent"} },
	"disabled+block-forward-marker": func(pc *config.ProxyConfig) { pc.AccessLog.RequestHeaders.BlockList = []string{"x-piko-forward", "x-piko-endpoint"} },
	"enabled+allow-list": func(pc *config.ProxyConfig) {
		pc.AccessLog.Disable = false
		pc.AccessLog.RequestHeaders.AllowList = []string{"user-agent"}
		pc.AccessLog.ResponseHeaders.AllowList = []string{"content-type"}
	},
}

func (c c06Case) place(i int) int {
	p := c.Place
	for k := 0; k < i; k++ {
		p /= 3
	}
	return p % 3
}

type c06World struct {
	n   int
	cl  *e4.CompCluster
	ups []*e4.StampUpstream
}

func newC06World(n int, logCfg string) *c06World {
	pc := e4.DefaultProxyConfig()
	if f := c06LogConfigs[logCfg]; f != nil {
		f(&pc)
	}
	w := &c06World{n: n, cl: e4.NewCompCluster(n, pc, nil)}
	for i := 0; i < n; i++ {
		w.ups = append(w.ups, &e4.StampUpstream{Endpoint: "e1", Name: fmt.Sprintf("u%d", i), Node: fmt.Sprintf("n%d", i)})
	}
	return w
}

func (w *c06World) configure(c c06Case) {
	for i := 0; i < w.n; i++ {
		// removal is idempotent; the proxy itself removes an upstream that said go-away
		w.cl.Nodes[i].Mgr.RemoveConn(w.ups[i])
		w.ups[i].Gone.Store(c.place(i) == 2)
		if c.place(i) != 0 {
			w.cl.Nodes[i].Mgr.AddConn(w.ups[i])
		}
		for j := 0; j < w.n; j++ {
			if i == j {
				continue
			}
			cnt := 0
			if c.Beliefs&(1<<uint(i*w.n+j)) != 0 {
				cnt = 1
			}
			w.cl.Believe(i, j, "e1", cnt)
		}
	}
}

// run sends the request of the case twice in the same configuration: what a
// node remembers from the first one (connections, caches) must not change the
// answer to the second.
func (w *c06World) run(c c06Case) (sig, msg string) {
	w.configure(c)
	for attempt := 1; attempt <= 2; attempt++ {
		if sig, msg = w.runOnce(c); sig != "" {
			if attempt == 2 {
				msg = "second identical request: " + msg
			}
			return sig, msg
		}
		// the proxy removes an upstream that said go-away when it meets it; only then
		// is the configuration put back before the second request (re-writing the
		// routing views would wipe whatever the nodes remember)
		for i := 0; i < w.n; i++ {
			if c.place(i) == 2 {
				w.cl.Nodes[i].Mgr.RemoveConn(w.ups[i])
				w.cl.Nodes[i].Mgr.AddConn(w.ups[i])
			}
		}
	}
	return "", ""
}

func (w *c06World) runOnce(c c06Case) (sig, msg string) {
	before := w.cl.TotalAccepts()
	var perNode []int64
	for _, n := range w.cl.Nodes {
		perNode = append(perNode, n.Accepts.Load())
	}
	a := e4.Addressing{Mode: c.Mode, Endpoint: "e1"}
	a.Extra = map[string]string{}
	if c.Forward != "" {
		a.Extra["x-piko-forward"] = c.Forward
	}
	if c.Conn != "" {
		a.Extra["Connection"] = c.Conn
	}
	var res e4.Result
	if c.Mode == "tcp" && c.Conn != "" {
		// a raw WebSocket handshake on the TCP route whose Connection header is a
		// token list (gorilla's dialer does not allow setting it)
		lines := []string{"GET /_piko/v1/tcp/e1 HTTP/1.1", "Host: piko.test", "Upgrade: websocket", "Connection: Upgrade, " + c.Conn,
			"Sec-WebSocket-Key: dGhlIHNhbXBsZSBub25jZQ==", "Sec-WebSocket-Version: 13"}
		if c.Forward != "" {
			lines = append(lines, "x-piko-forward: "+c.Forward)
		}
		resp, conn, br, err := rawRequest(w.cl.Nodes[c.Entry].Addr, lines...)
		if err != nil {
			res = e4.Result{Err: err.Error()}
		} else {
			res = e4.Result{Status: resp.StatusCode, Endpoint: "e1"}
			if resp.StatusCode == 101 {
				// the stamp protocol over the raw connection: one masked binary frame
				res.Node = tcpStampNode(conn, br)
			}
			conn.Close()
			time.Sleep(5 * time.Millisecond) // let the proxies account the closed tunnel
		}
	} else {
		res = e4.Do(w.cl.Nodes[c.Entry].Addr, a)
	}
	hops := w.cl.TotalAccepts() - before
	okStatus := 200
	if c.Mode == "tcp" {
		okStatus = 101
	}
	desc := fmt.Sprintf("%+v -> %s, connections accepted by all nodes: %d", c, res, hops)
	if res.Err != "" {
		return "request-failed", desc
	}
	if res.Status != okStatus && res.Status != 502 {
		return "unexpected-status", desc
	}
	if res.Status == okStatus && res.Endpoint != "e1" {
		return "served-by-wrong-endpoint", desc
	}
	if hops > 2 {
		return "more-than-one-hop", desc
	}
	switch c.place(c.Entry) {
	case 1:
		if hops != 1 || res.Status != okStatus || res.Node != fmt.Sprintf("n%d", c.Entry) {
			return "local-upstream-not-preferred", desc
		}
		return "", ""
	case 2:
		// the local upstream announced go-away: the request fails here, it is
		// not retried on another node
		if hops != 1 {
			return "forwarded-despite-local-upstream", desc
		}
		if res.Status != 502 {
			return "unexpected-status", desc
		}
		return "", ""
	}
	if c.Forward == "true" {
		if hops != 1 {
			return "forwarded-request-forwarded-again", desc
		}
		if res.Status != 502 {
			return "forwarded-request-not-rejected", desc
		}
		return "", ""
	}
	// entry has no upstream and may forward once
	believes := 0
	for j := 0; j < w.n; j++ {
		if j != c.Entry && c.Beliefs&(1<<uint(c.Entry*w.n+j)) != 0 {
			believes++
		}
	}
	if believes == 0 {
		if hops != 1 || res.Status != 502 {
			return "forwarded-without-route", desc
		}
		return "", ""
	}
	if hops != 2 {
		return "did-not-forward-once", desc
	}
	target := -1
	for j := range w.cl.Nodes {
		if j != c.Entry && w.cl.Nodes[j].Accepts.Load() > perNode[j] {
			target = j
		}
	}
	if target < 0 {
		return "did-not-forward-once", desc
	}
	if res.Status == okStatus {
		// served by the node it was forwarded to, which must really have a healthy one
		if c.place(target) != 1 || res.Node != fmt.Sprintf("n%d", target) {
			return "served-beyond-first-hop", desc
		}
	} else if c.place(target) == 1 {
		return "second-node-did-not-serve-locally", desc
	}
	return "", ""
}

func init() {
	register("C06", func(args []string) int {
		run := evid.NewRun("C06", "fault_enumeration")
		modes := []string{"header", "tcp"}
		var cases []c06Case
		sizes := []int{3}
		if run.Thorough() {
			sizes = []int{2, 3, 4}
		}
		for _, n := range sizes {
			places := 1
			for i := 0; i < n; i++ {
				places *= 3
			}
			for b := 0; b < 1<<uint(n*n); b++ {
				diag := false
				for i := 0; i < n; i++ {
					if b&(1<<uint(i*n+i)) != 0 {
						diag = true
					}
				}
				if diag {
					continue
				}
				for p := 0; p < places; p++ {
					if n == 4 {
						// 4 nodes: placements without go-away only (3^4 x 2^12 is too many)
						skip := false
						for q, i := p, 0; i < n; i, q = i+1, q/3 {
							if q%3 == 2 {
								skip = true
							}
						}
						if skip {
							continue
						}
					}
					for e := 0; e < n; e++ {
						for _, m := range modes {
							for _, f := range []string{"", "true", "false"} {
								cases = append(cases, c06Case{N: n, Beliefs: b, Place: p, Entry: e, Mode: m, Forward: f})
								if n == 3 {
									// the client declares the marker hop-by-hop (either route, any spelling)
									cases = append(cases, c06Case{N: n, Beliefs: b, Place: p, Entry: e, Mode: m, Forward: f, Conn: "x-piko-forward"})
									if f == "" {
										cases = append(cases, c06Case{N: n, Beliefs: b, Place: p, Entry: e, Mode: m, Conn: "X-Piko-Forward"})
									}
								}
								if f == "" && n == 3 {
									for lc := range c06LogConfigs {
										cases = append(cases, c06Case{N: n, Beliefs: b, Place: p, Entry: e, Mode: m, Log: lc})
									}
								}
							}
						}
					}
				}
			}
		}
		workers := 12
		ch := make(chan c06Case, 64)
		var wg sync.WaitGroup
		var mu sync.Mutex
		evals, nontrivial := 0, 0
		for k := 0; k < workers; k++ {
			wg.Add(1)
			go func() {
				defer wg.Done()
				worlds := map[string]*c06World{}
				defer func() {
					for _, w := range worlds {
						w.cl.Close()
					}
				}()
				for c := range ch {
					if run.Violations() >= 5 {
						continue
					}
					wk := fmt.Sprintf("%d/%s", c.N, c.Log)
					w := worlds[wk]
					if w == nil {
						w = newC06World(c.N, c.Log)
						worlds[wk] = w
					}
					sig, msg := w.run(c)
					for r := 0; r < 4 && sig == "request-failed"; r++ {
						sig, msg = w.run(c)
					}
					mu.Lock()
					evals++
					// non-trivial: the entry node cannot simply serve from a healthy local upstream
					if c.place(c.Entry) != 1 {
						nontrivial++
					}
					if evals%4999 == 1 {
						run.Sample(c)
					}
					mu.Unlock()
					if sig != "" {
						run.Violation("C06", sig, msg, map[string]any{"engine": "E4-C06", "case": c})
					}
				}
			}()
		}
		for _, c := range cases {
			ch <- c
		}
		close(ch)
		wg.Wait()
		schedPass(run)
		run.Set("evaluations", evals)
		run.Set("distinct_nontrivial", nontrivial)
		run.Set("rule", "cross product of all 2^6 belief matrices (who believes whom to serve E) x all 3^3 placements (per node: no upstream / healthy upstream / upstream that announced go-away) x entry node x {HTTP, TCP} x x-piko-forward header sent by the client {absent, true, false} x {-, Connection: x-piko-forward (HTTP route)} on 3 real proxy servers (thorough: also 2 and 4 nodes), and x 3 access-log configurations (header allow list / block list naming piko's routing headers, log disabled and enabled); every case is distinct; non-trivial = the entry node has no healthy local upstream (the request must be forwarded once, or refused)")
		run.Set("exhaustive", true)
		run.Assume("goroutine scheduling inside net/http, gorilla/websocket and the proxies is free-running; the enumerated dimension is the configuration")
		fmt.Printf("  C06: cases=%d non-trivial=%d\n", evals, nontrivial)
		return run.Finish()
	})
	replayers["E4-C06"] = func(path string) int {
		var doc struct {
			Replay struct {
				Case c06Case `json:"case"`
			} `json:"replay"`
		}
		readJSON(path, &doc)
		w := newC06World(doc.Replay.Case.N, doc.Replay.Case.Log)
		defer w.cl.Close()
		for i := 0; i < 2; i++ {
			sig, msg := w.run(doc.Replay.Case)
			fmt.Println(sig, msg)
		}
		return 0
	}
}
