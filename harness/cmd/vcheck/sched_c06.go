package main

import (
	"encoding/json"
	"fmt"
	"os"
	"strings"

	"verifharness/internal/evid"
)

// C06-sched: the concurrent half of C06. The grid in sys_c06.go enumerates
// configurations with free-running goroutines; whether a request can be handed
// to the node itself (or a forwarded request forwarded again) in the window in
// which a local upstream connects or disconnects is a question about
// interleavings of Select with AddConn/RemoveConn: every schedule of programs
// A and F up to the preemption bound, on the sched build. The check script
// runs this with the second binary and passes the result to C06.
//
// C14-sched: the same for C14: notifications are a faithful log of the view
// only if they are issued in the order of the state changes; programs B, G
// and H interleave the expiry sweep, liveness evaluation and incoming
// datagrams, and compare the routing table (the fold of the notifications)
// with the gossip view at quiescence.
func init() {
	auxSched("C06", []string{"A-", "F-"}, func(sig string) bool {
		return strings.HasPrefix(sig, "select") || sig == "panic"
	})
	// C11: expiry sweep against restoration; C17: compaction against the
	// application's own writes
	auxSched("C11", []string{"G-", "H-", "I-"}, func(sig string) bool {
		return strings.HasPrefix(sig, "restored-node") || strings.HasPrefix(sig, "fresh-node") || strings.HasPrefix(sig, "node-lost") ||
			strings.HasPrefix(sig, "routing-table") || strings.HasPrefix(sig, "expired-node") || sig == "panic"
	})
	auxSched("C17", []string{"J-"}, func(sig string) bool {
		return strings.HasPrefix(sig, "local-") || sig == "panic"
	})
	// C04: discovery from a digest against the first relayed delta (L), the
	// sweep against re-discovery (G), first heartbeat against liveness (H)
	auxSched("C04", []string{"L-", "G-", "H-"}, func(sig string) bool {
		return strings.HasPrefix(sig, "routing-table") || strings.HasPrefix(sig, "expired-node") || strings.HasPrefix(sig, "node-lost") || sig == "panic"
	})
	auxSched("C14", []string{"B-", "G-", "H-", "L-"}, func(sig string) bool {
		return strings.HasPrefix(sig, "routing-table") || strings.HasPrefix(sig, "expired-node") || strings.HasPrefix(sig, "remote-node") || sig == "panic"
	})
}

func auxSched(prop string, progs []string, accept func(sig string) bool) {
	register(prop+"-sched", func(args []string) int {
		run := evid.NewRun(prop, "model_checking")
		bound := 2
		if run.Thorough() {
			bound = 3
		}
		ps := pick(progs...)
		execs, points, complete := runSched(run, prop, ps, bound, 600, accept)
		var names []string
		for _, p := range ps {
			names = append(names, p.Name)
		}
		out := map[string]any{"technique": "every schedule up to the preemption bound (cooperative scheduler at the real code's mutexes)", "programs": names,
			"schedules": execs, "scheduling_points": points, "preemption_bound": bound, "complete": complete, "violations": run.Violations()}
		b, _ := json.Marshal(out)
		if p := os.Getenv("VERIF_AUX_OUT"); p != "" {
			_ = os.WriteFile(p, b, 0o644)
		}
		fmt.Printf("%s-sched: schedules=%d points=%d complete=%v violations=%d\n", prop, execs, points, complete, run.Violations())
		if run.Violations() > 0 {
			return 1
		}
		return 0
	})
}

// schedPass folds the result of the scheduler pass into the main run.
func schedPass(run *evid.Run) {
	p := os.Getenv("VERIF_SCHED_JSON")
	if p == "" {
		run.Assume("scheduler pass not run in this invocation")
		return
	}
	var rr map[string]any
	b, err := os.ReadFile(p)
	if err != nil || json.Unmarshal(b, &rr) != nil {
		evid.Fatal("scheduler pass produced no result (%v)", err)
	}
	run.Set("scheduler_pass", rr)
	if n, _ := rr["violations"].(float64); n > 0 {
		run.CountViolations(int(n)) // already printed by the pass itself
	}
}
