package main

import (
	"encoding/json"
	"fmt"
	"os"
	"strings"

	"verifharness/internal/evid"
)

// C06-sched: the concurrent half of C06. The grid in sys_c06.go enumerates
// configurations with free-running goroutines; whether a request can be handed
// to the node itself (or a forwarded request forwarded again) in the window in
// which a local upstream connects or disconnects is a question about
// interleavings of Select with AddConn/RemoveConn: every schedule of programs
// A and F up to the preemption bound, on the sched build. The check script
// runs this with the second binary and passes the result to C06.
func init() {
	register("C06-sched", func(args []string) int {
		run := evid.NewRun("C06", "model_checking")
		bound := 2
		if run.Thorough() {
			bound = 3
		}
		execs, points, complete := runSched(run, "C06", pick("A-", "F-"), bound, 600, func(sig string) bool {
			return strings.HasPrefix(sig, "select") || sig == "panic"
		})
		out := map[string]any{"technique": "every schedule up to the preemption bound (cooperative scheduler at the real code's mutexes)", "programs": []string{"A-add-remove-select", "F-forward-while-connecting", "F-forward-while-connecting-with-remote"},
			"schedules": execs, "scheduling_points": points, "preemption_bound": bound, "complete": complete, "violations": run.Violations()}
		b, _ := json.Marshal(out)
		if p := os.Getenv("VERIF_AUX_OUT"); p != "" {
			_ = os.WriteFile(p, b, 0o644)
		}
		fmt.Printf("C06-sched: schedules=%d points=%d complete=%v violations=%d\n", execs, points, complete, run.Violations())
		if run.Violations() > 0 {
			return 1
		}
		return 0
	})
}

// schedPass folds the result of the scheduler pass into the main run.
func schedPass(run *evid.Run) {
	p := os.Getenv("VERIF_SCHED_JSON")
	if p == "" {
		run.Assume("scheduler pass (C06-sched) not run in this invocation")
		return
	}
	var rr map[string]any
	b, err := os.ReadFile(p)
	if err != nil || json.Unmarshal(b, &rr) != nil {
		evid.Fatal("scheduler pass produced no result (%v)", err)
	}
	run.Set("scheduler_pass", rr)
	if n, _ := rr["violations"].(float64); n > 0 {
		run.CountViolations(int(n)) // already printed by the pass itself
	}
}
