package main

import (
	"fmt"

	"github.com/andydunstall/piko/server/cluster"
	"verifharness/internal/e4"
	"verifharness/internal/evid"
)

// c01AccessLog: the component grid once more (truthful views, a fixed
// placement: e1 on node 0, e2 on node 1, both on node 2) on proxies whose
// access log is configured with header filters. Logging options do not change
// which endpoint a request is addressed to.
func c01AccessLog(run *evid.Run) (evals int) {
	for _, lf := range []string{"allow-list", "block-list"} {
		pc := e4.DefaultProxyConfig()
		if lf == "allow-list" {
			pc.AccessLog.RequestHeaders.AllowList = []string{"user-agent"}
		} else {
			pc.AccessLog.RequestHeaders.BlockList = []string{"x-piko-endpoint", "host", "x-piko-forward"}
		}
		w := newC01WorldCfg(3, pc)
		// placement bits: endpoint k on node i = bit k*3+i
		place := 1<<0 | 1<<2 | 1<<(3+1) | 1<<(3+2)
		for _, view := range []string{"truth", "all"} {
			for e := 0; e < 3; e++ {
				for _, a := range c01Addressings() {
					evals++
					c := c01Case{Place: place, View: view, Entry: e, Addr: a}
					sig, msg := w.run(c)
					for r := 0; r < 3 && sig == "request-failed"; r++ {
						sig, msg = w.run(c)
					}
					if sig != "" {
						run.Violation("C01", sig, "access-log header "+lf+" configured: "+msg, map[string]any{"engine": "E4-C01", "case": c, "access_log": lf})
					}
				}
			}
		}
		w.cl.Close()
	}
	return evals
}

// c01Statuses: the entry node's view lists the endpoint on two other nodes,
// one of them unreachable or left (a crashed node keeps its last-known
// endpoints until it expires) with any listener count, the other active and
// really serving: the request is served by the active one, from every entry.
func c01Statuses(run *evid.Run) (evals int) {
	cl := e4.NewCompCluster(3, e4.DefaultProxyConfig(), nil)
	defer cl.Close()
	ups := make([]*e4.StampUpstream, 3)
	for i := range ups {
		ups[i] = &e4.StampUpstream{Endpoint: "e1", Name: fmt.Sprintf("u%d", i), Node: fmt.Sprintf("n%d", i)}
	}
	for entry := 0; entry < 3; entry++ {
		for dead := 0; dead < 3; dead++ {
			if dead == entry {
				continue
			}
			alive := 3 - entry - dead
			for _, status := range []cluster.NodeStatus{cluster.NodeStatusUnreachable, cluster.NodeStatusLeft} {
				for _, deadCount := range []int{1, 2, 5} {
					for _, aliveCount := range []int{1, 2} {
						for _, mode := range []string{"header", "tcp"} {
							evals++
							for i := 0; i < 3; i++ {
								cl.Nodes[i].Mgr.RemoveConn(ups[i])
							}
							cl.Nodes[alive].Mgr.AddConn(ups[alive])
							cl.Believe(entry, dead, "e1", deadCount)
							cl.Believe(entry, alive, "e1", aliveCount)
							cl.Nodes[entry].CS.UpdateRemoteStatus(cl.Nodes[dead].ID, status)
							cl.Nodes[entry].CS.UpdateRemoteStatus(cl.Nodes[alive].ID, cluster.NodeStatusActive)
							res := e4.Do(cl.Nodes[entry].Addr, e4.Addressing{Mode: mode, Endpoint: "e1"})
							ok := (res.Status == 200 || res.Status == 101) && res.Err == "" && res.Node == fmt.Sprintf("n%d", alive)
							if !ok {
								run.Violation("C01", "not-served-although-upstream-exists", fmt.Sprintf("entry n%d lists e1 on n%d (%s, %d listeners) and on n%d (active, %d listeners, really serving), %s route -> %s", entry, dead, status, deadCount, alive, aliveCount, mode, res), map[string]any{"engine": "E4-C01", "entry": entry, "dead": dead, "status": string(status), "dead_listeners": deadCount, "alive_listeners": aliveCount, "mode": mode})
							}
							cl.Nodes[entry].CS.UpdateRemoteStatus(cl.Nodes[dead].ID, cluster.NodeStatusActive)
							cl.Believe(entry, dead, "e1", 0)
							cl.Believe(entry, alive, "e1", 0)
						}
					}
				}
			}
		}
	}
	return evals
}
