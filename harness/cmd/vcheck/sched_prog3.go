package main

import (
	"github.com/andydunstall/piko/pkg/gossip"
	"github.com/andydunstall/piko/verifshim/vsync"
)

// progL: a node is discovered from a third party's digest (packet listener)
// while its state arrives relayed in a delta handled by another goroutine
// (stream handler / next datagram) and a request looks its endpoint up. The
// routing table - the fold of the notifications - must end up listing the
// node with its endpoints whatever the order.
func progL() schedProgram {
	var last string
	return schedProgram{Name: "L-discovery-vs-first-delta", outcome: &last, Build: func() ([]func(), func(o *vsync.Outcome) []string) {
		c := newNodeCore()
		c.learnRemote("nY", "10.0.0.2:7000")
		dig := remoteDigest("nY", "10.0.0.2:7000",
			gossip.VDigestEntry{ID: "nY", Addr: "10.0.0.2:7000", Version: 2},
			gossip.VDigestEntry{ID: "nZ", Addr: "10.0.0.3:7000", Version: 3})
		relay := relayedDelta("nY", "10.0.0.2:7000", "nZ", "10.0.0.3:7000",
			gossip.Entry{Key: "proxy_addr", Value: "p-nZ", Version: 1},
			gossip.Entry{Key: "admin_addr", Value: "a-nZ", Version: 2},
			gossip.Entry{Key: "endpoint:e2", Value: "1", Version: 3})
		bodies := []func(){
			func() { _ = c.pl.VHandlePacket(dig) },
			func() { _ = c.pl.VHandlePacket(relay) },
			func() { _, _ = c.cs.LookupEndpoint("e2"); _ = c.gs.Nodes() },
		}
		check := func(o *vsync.Outcome) []string {
			msgs := c.mirrored()
			msgs = append(msgs, c.quiescent()...)
			if _, known := c.gs.Node("nZ"); !known {
				msgs = append(msgs, "node-lost: nZ was named in a digest and its state was delivered, yet it is not in the view")
			}
			last = c.finalState()
			return msgs
		}
		return bodies, check
	}}
}
