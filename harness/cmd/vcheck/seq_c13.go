package main

import (
	"bytes"
	"encoding/hex"
	"encoding/json"
	"fmt"
	"io"
	"net"
	"os"
	"os/exec"
	"reflect"
	"strings"
	"sync"
	"sync/atomic"
	"time"

	"github.com/andydunstall/piko/pkg/gossip"
	"verifharness/internal/evid"
	"verifharness/internal/gw"
)

// ---------------------------------------------------------------------------
// A. codec sweep: every max packet size from the bare header to full size+1

func digestCases() []gossip.VDigest {
	mk := func(n int, id func(i int) string) gossip.VDigest {
		var d gossip.VDigest
		for i := 0; i < n; i++ {
			d = append(d, gossip.VDigestEntry{ID: id(i), Addr: fmt.Sprintf("10.0.0.%d:7000", i+1), Version: uint64(i * 100), Left: i%3 == 2})
		}
		return d
	}
	var out []gossip.VDigest
	for n := 0; n <= 6; n++ {
		out = append(out, mk(n, func(i int) string { return fmt.Sprintf("n%d", i) }))
	}
	out = append(out, mk(4, func(i int) string { return []string{"ü", "节点", "", "a-very-long-node-identifier-0123456789"}[i] }))
	return out
}

func deltaCases() []gossip.VDelta {
	ent := func(k, v string, ver uint64, del bool) gossip.Entry {
		return gossip.Entry{Key: k, Value: v, Version: ver, Deleted: del}
	}
	var out []gossip.VDelta
	for nodes := 1; nodes <= 3; nodes++ {
		for per := 0; per <= 3; per++ {
			var d gossip.VDelta
			for n := 0; n < nodes; n++ {
				de := gossip.VDeltaEntry{ID: fmt.Sprintf("n%d", n), Addr: fmt.Sprintf("10.0.0.%d:7000", n+1)}
				for e := 0; e < per; e++ {
					de.Entries = append(de.Entries, ent(fmt.Sprintf("k%d", e), fmt.Sprintf("v%d", e), uint64(10*n+e+1), false))
				}
				d = append(d, de)
			}
			out = append(out, d)
		}
	}
	// unicode keys, empty values, tombstones, internal markers, uneven sizes
	out = append(out, gossip.VDelta{
		{ID: "节点", Addr: "a", Entries: []gossip.Entry{ent("ключ", "", 1, false), ent("k", "", 2, true), {Key: gossip.VCompactKey, Value: "2", Version: 3, Internal: true}}},
		{ID: "", Addr: "", Entries: []gossip.Entry{ent("", "", 1, false), ent("long", string(bytes.Repeat([]byte("x"), 70)), 2, false), ent("z", "1", 3, false)}},
	})
	out = append(out, gossip.VDelta{
		{ID: "n0", Addr: "a", Entries: []gossip.Entry{ent("big", string(bytes.Repeat([]byte("y"), 200)), 1, false), ent("small", "1", 2, false)}},
		{ID: "n1", Addr: "b", Entries: []gossip.Entry{ent("k", "v", 7, false)}},
	})
	return out
}

func sweepDigest(run *evid.Run, d gossip.VDigest) (evals, truncs int) {
	h := gossip.VDigestHeader{NodeID: "sender", Addr: "10.9.9.9:7000", Request: true}
	bounds := make([]int, len(d)+1)
	for j := 0; j <= len(d); j++ {
		b, err := gossip.VEncodeDigest(h, d[:j], 1<<30)
		if err != nil {
			evid.Fatal("encodeDigest: %v", err)
		}
		bounds[j] = len(b)
	}
	for max := bounds[0] - 1; max <= bounds[len(d)]+1; max++ {
		evals++
		b, err := gossip.VEncodeDigest(h, d, max)
		if max < bounds[0] {
			if err == nil {
				run.Violation("C13", "header-overflow-not-rejected", fmt.Sprintf("encodeDigest with max %d < header %d returned %d bytes", max, bounds[0], len(b)), map[string]any{"engine": "E3-C13", "kind": "digest", "digest": d, "max": max})
			}
			continue
		}
		if err != nil {
			run.Violation("C13", "encode-error", fmt.Sprintf("encodeDigest: %v", err), map[string]any{"engine": "E3-C13", "kind": "digest", "digest": d, "max": max})
			continue
		}
		want := 0
		for j := 0; j <= len(d); j++ {
			if bounds[j] <= max {
				want = j
			}
		}
		if want < len(d) {
			truncs++
		}
		rh, rd, derr := gossip.VDecodeDigest(b)
		msg := ""
		switch {
		case len(b) > max:
			msg = fmt.Sprintf("emitted %d bytes > max %d", len(b), max)
		case derr != nil:
			msg = fmt.Sprintf("emitted digest does not decode: %v", derr)
		case rh != h:
			msg = "header altered"
		case len(rd) != want:
			msg = fmt.Sprintf("carries %d entries, %d fit", len(rd), want)
		case want > 0 && !reflect.DeepEqual(rd, d[:want]):
			msg = "decoded entries are not the intended prefix"
		}
		if msg != "" {
			run.Violation("C13", "digest-not-maximal-prefix", fmt.Sprintf("digest of %d entries at max %d: %s", len(d), max, msg), map[string]any{"engine": "E3-C13", "kind": "digest", "digest": d, "max": max})
		}
	}
	return
}

// flatten a delta into its encoding units: node header, entry, entry, ...
func deltaPrefix(d gossip.VDelta, units int) gossip.VDelta {
	var out gossip.VDelta
	for _, de := range d {
		if units == 0 {
			break
		}
		units--
		ne := gossip.VDeltaEntry{ID: de.ID, Addr: de.Addr}
		for _, e := range de.Entries {
			if units == 0 {
				break
			}
			units--
			ne.Entries = append(ne.Entries, e)
		}
		out = append(out, ne)
		if len(ne.Entries) < len(de.Entries) {
			break
		}
	}
	return out
}

func deltaUnits(d gossip.VDelta) int {
	n := 0
	for _, de := range d {
		n += 1 + len(de.Entries)
	}
	return n
}

func sweepDelta(run *evid.Run, d gossip.VDelta) (evals, truncs int) {
	h := gossip.VDeltaHeader{NodeID: "sender", Addr: "10.9.9.9:7000"}
	units := deltaUnits(d)
	// size of the first j units when encoded with the per-node headers the
	// real encoder writes (they announce the full entry count)
	bounds := make([]int, units+1)
	full, err := gossip.VEncodeDelta(h, d, 1<<30)
	if err != nil {
		evid.Fatal("encodeDelta: %v", err)
	}
	hb, _ := gossip.VEncodeDelta(h, nil, 1<<30)
	bounds[0] = len(hb)
	// derive unit boundaries by decoding prefixes of the full encoding
	j := 1
	for cut := len(hb) + 1; cut <= len(full); cut++ {
		_, pd, derr := gossip.VDecodeDelta(full[:cut])
		if derr == nil && deltaUnits(pd) == j && reflect.DeepEqual(normDelta(pd), normDelta(deltaPrefix(d, j))) {
			bounds[j] = cut
			j++
			if j > units {
				break
			}
		}
	}
	if j <= units {
		evid.Fatal("could not derive unit boundaries of a delta (found %d of %d)", j-1, units)
	}
	for max := bounds[0] - 1; max <= bounds[units]+1; max++ {
		evals++
		b, err := gossip.VEncodeDelta(h, d, max)
		rep := map[string]any{"engine": "E3-C13", "kind": "delta", "delta": d, "max": max}
		if max < bounds[0] {
			if err == nil {
				run.Violation("C13", "header-overflow-not-rejected", fmt.Sprintf("encodeDelta with max %d < header %d returned %d bytes", max, bounds[0], len(b)), rep)
			}
			continue
		}
		if err != nil {
			run.Violation("C13", "encode-error", fmt.Sprintf("encodeDelta: %v", err), rep)
			continue
		}
		want := 0
		for u := 0; u <= units; u++ {
			if bounds[u] <= max {
				want = u
			}
		}
		if want < units {
			truncs++
		}
		rh, rd, derr := gossip.VDecodeDelta(b)
		msg := ""
		switch {
		case len(b) > max:
			msg = fmt.Sprintf("emitted %d bytes > max %d", len(b), max)
		case derr != nil:
			msg = fmt.Sprintf("emitted delta does not decode: %v", derr)
		case rh.NodeID != h.NodeID || rh.Addr != h.Addr:
			msg = "header altered"
		case deltaUnits(rd) != want:
			msg = fmt.Sprintf("carries %d units (node headers + entries), %d fit", deltaUnits(rd), want)
		case !reflect.DeepEqual(normDelta(rd), normDelta(deltaPrefix(d, want))):
			msg = "decoded content is not the intended whole-entry prefix"
		}
		if msg != "" {
			run.Violation("C13", "delta-not-maximal-prefix", fmt.Sprintf("delta at max %d: %s", max, msg), rep)
		}
	}
	return
}

func normDelta(d gossip.VDelta) gossip.VDelta {
	var out gossip.VDelta
	for _, de := range d {
		ne := gossip.VDeltaEntry{ID: de.ID, Addr: de.Addr}
		if len(de.Entries) > 0 {
			ne.Entries = append([]gossip.Entry(nil), de.Entries...)
		}
		out = append(out, ne)
	}
	return out
}

// ---------------------------------------------------------------------------
// C. hostile input

// corpus: datagrams and stream requests produced by the real code in a
// scripted exchange.
func buildCorpus() (packets [][]byte, streams [][]byte) {
	sc := gw.S1(1400, 9, 99, 0, -1)
	sc.Oracles = gw.OracleSet{}
	w := gw.NewWorld(sc, &gw.Stats{})
	w.EnableCorpus()
	script := []gw.Event{
		{Kind: "up", A: 0, K: "a", V: "1"}, {Kind: "up", A: 0, K: "b", V: ""},
		{Kind: "digest", A: 1, B: 0}, {Kind: "deliver", P: 0}, {Kind: "deliver", P: 0}, {Kind: "deliver", P: 0},
		{Kind: "del", A: 0, K: "a"}, {Kind: "compact", A: 0},
		{Kind: "digest", A: 1, B: 0}, {Kind: "deliver", P: 0}, {Kind: "deliver", P: 0}, {Kind: "deliver", P: 0},
		{Kind: "digest", A: 2, B: 1}, {Kind: "deliver", P: 0}, {Kind: "deliver", P: 0}, {Kind: "deliver", P: 0},
		{Kind: "join", A: 2, B: 1},
		{Kind: "leave", A: 0},
		// digests that carry a node that has left (so that their neighbours name
		// unknown nodes flagged as left)
		{Kind: "digest", A: 2, B: 1}, {Kind: "deliver", P: 0}, {Kind: "deliver", P: 0}, {Kind: "deliver", P: 0},
		{Kind: "digest", A: 1, B: 2}, {Kind: "deliver", P: 0}, {Kind: "deliver", P: 0}, {Kind: "deliver", P: 0},
	}
	for _, e := range script {
		w.Replay(e)
	}
	return w.Corpus()
}

type hostileNode struct {
	st *gossip.VClusterState
	pl *gossip.VPacketListener
	sl *gossip.VStreamListener
	n  int
}

var hostileMetrics = gossip.VNewMetrics()

func newHostileNode() *hostileNode {
	h := &hostileNode{}
	h.st = gossip.VNewClusterState("nR", "10.0.0.2:7000", nopFD{}, hostileMetrics, nopWatcher{})
	h.st.UpsertLocal("proxy_addr", "p")
	h.st.UpsertLocal("k", "v")
	h.st.DeleteLocal("k")
	h.pl = gossip.VNewPacketListener(discardConn{}, h.st, nopFD{}, 1400, hostileMetrics)
	h.sl = gossip.VNewStreamListener(nil, h.st, hostileMetrics)
	return h
}

type oneShotConn struct {
	r bytes.Reader
}

func (c *oneShotConn) Read(p []byte) (int, error)         { return c.r.Read(p) }
func (c *oneShotConn) Write(p []byte) (int, error)        { return len(p), nil }
func (c *oneShotConn) Close() error                       { return nil }
func (c *oneShotConn) LocalAddr() net.Addr                { return &net.TCPAddr{} }
func (c *oneShotConn) RemoteAddr() net.Addr               { return &net.TCPAddr{} }
func (c *oneShotConn) SetDeadline(t time.Time) error      { return nil }
func (c *oneShotConn) SetReadDeadline(t time.Time) error  { return nil }
func (c *oneShotConn) SetWriteDeadline(t time.Time) error { return nil }

// feed gives one input to the handler; returns a failure description.
func (h *hostileNode) feed(stream bool, in []byte) (msg string) {
	pre := descNodeState(h.st.LocalNode())
	defer func() {
		if r := recover(); r != nil {
			msg = fmt.Sprintf("handler panicked: %v", r)
		}
	}()
	if stream {
		c := &oneShotConn{}
		c.r.Reset(in)
		_ = h.sl.VHandleConn(c)
	} else {
		_ = h.pl.VHandlePacket(append([]byte(nil), in...))
	}
	if post := descNodeState(h.st.LocalNode()); post != pre {
		return fmt.Sprintf("own published state changed: %s -> %s", pre, post)
	}
	return ""
}

// neighbours enumerates every 1-edit neighbour of b.
func neighbours(b []byte, emit func([]byte)) {
	for i := 0; i <= len(b); i++ {
		emit(append([]byte(nil), b[:i]...)) // every truncation
	}
	buf := make([]byte, len(b)+1)
	for i := 0; i < len(b); i++ {
		orig := b[i]
		copy(buf, b)
		for v := 0; v < 256; v++ {
			if byte(v) == orig {
				continue
			}
			buf[i] = byte(v)
			emit(buf[:len(b)])
		}
		// deletion
		d := append(append([]byte(nil), b[:i]...), b[i+1:]...)
		emit(d)
	}
	for i := 0; i <= len(b); i++ {
		copy(buf, b[:i])
		copy(buf[i+1:], b[i:])
		for v := 0; v < 256; v++ {
			buf[i] = byte(v)
			emit(buf)
		}
	}
}

type hostileResult struct {
	Inputs     int64    `json:"inputs"`
	ShortAll   int64    `json:"short_strings"`
	PacketEdit int64    `json:"packet_neighbours"`
	StreamEdit int64    `json:"stream_neighbours"`
	Corpus     int      `json:"corpus_packets"`
	Streams    int      `json:"corpus_streams"`
	Failures   []string `json:"failures"`
	FailInputs []string `json:"fail_inputs"`
	FailStream []bool   `json:"fail_stream"`
	Accepted   int64    `json:"accepted_without_error"`
	// two-message sequences with a hostile node id (seq_c13_pairs.go)
	Pairs     int64      `json:"hostile_id_pairs"`
	PairFails []pairFail `json:"pair_failures"`
}

func hostileWorker(maxLen int) int {
	packets, streams := buildCorpus()
	res := &hostileResult{Corpus: len(packets), Streams: len(streams)}
	var mu sync.Mutex
	fail := func(stream bool, in []byte, msg string) {
		mu.Lock()
		if len(res.Failures) < 5 {
			res.Failures = append(res.Failures, msg)
			res.FailInputs = append(res.FailInputs, hex.EncodeToString(in))
			res.FailStream = append(res.FailStream, stream)
		}
		mu.Unlock()
	}
	type job struct {
		stream bool
		base   []byte
		short  int // >0: enumerate all strings of this length with first byte = base[0]
	}
	jobs := make(chan job, 64)
	var wg sync.WaitGroup
	var inputs, shortN, pe, se int64
	progress := os.Getenv("VERIF_C13_PROGRESS")
	for w := 0; w < 16; w++ {
		wg.Add(1)
		go func() {
			defer wg.Done()
			node := newHostileNode()
			count := 0
			run := func(stream bool, in []byte) {
				count++
				if count%2000 == 0 {
					node = newHostileNode() // accepted junk must not pile up
				}
				atomic.AddInt64(&inputs, 1)
				if m := node.feed(stream, in); m != "" {
					fail(stream, in, m)
					node = newHostileNode()
				}
			}
			for j := range jobs {
				if progress != "" {
					_ = os.WriteFile(fmt.Sprintf("%s.%d", progress, os.Getpid()), []byte(fmt.Sprintf("stream=%v short=%d base=%s", j.stream, j.short, hex.EncodeToString(j.base))), 0o644)
				}
				if j.short > 0 {
					buf := make([]byte, j.short)
					buf[0] = j.base[0]
					var rec func(i int)
					rec = func(i int) {
						if i == j.short {
							atomic.AddInt64(&shortN, 1)
							run(false, buf)
							return
						}
						for v := 0; v < 256; v++ {
							buf[i] = byte(v)
							rec(i + 1)
						}
					}
					rec(1)
					continue
				}
				neighbours(j.base, func(in []byte) {
					if j.stream {
						atomic.AddInt64(&se, 1)
					} else {
						atomic.AddInt64(&pe, 1)
					}
					run(j.stream, in)
				})
			}
		}()
	}
	// all byte strings up to maxLen (length 0 and 1 directly)
	jobs <- job{base: []byte{}, short: 0}
	for l := 1; l <= maxLen; l++ {
		for v := 0; v < 256; v++ {
			jobs <- job{base: []byte{byte(v)}, short: l}
		}
	}
	for _, p := range packets {
		jobs <- job{base: p}
	}
	for _, s := range streams {
		jobs <- job{base: s, stream: true}
	}
	close(jobs)
	wg.Wait()
	res.Inputs, res.ShortAll, res.PacketEdit, res.StreamEdit = inputs, shortN, pe, se
	res.Pairs, res.PairFails = hostilePairs(packets, streams)
	b, _ := json.Marshal(res)
	fmt.Println(string(b))
	return 0
}

func init() {
	register("C13-worker", func(args []string) int {
		n := 2
		if len(args) > 0 && args[0] == "3" {
			n = 3
		}
		return hostileWorker(n)
	})
	register("C13", func(args []string) int {
		run := evid.NewRun("C13", "exploration")
		// A. codec sweep
		evals, truncs := 0, 0
		for _, d := range digestCases() {
			e, t := sweepDigest(run, d)
			evals += e
			truncs += t
		}
		for _, d := range deltaCases() {
			e, t := sweepDelta(run, d)
			evals += e
			truncs += t
		}
		fmt.Printf("  C13 codec sweep: %d (content, max size) pairs, %d truncating\n", evals, truncs)
		run.Sample(map[string]any{"kind": "codec-sweep", "example": "delta of 3 nodes x 3 entries at every max packet size from header-1 to full+1"})
		// B. datagrams emitted by real nodes in explored worlds
		jobs := []gossipJob{
			{P: P("S1", 165, 2, 3, 0, 1, false), Need: []string{"TruncatedDeltas"}},
			{P: P("S3", 165, 2, 2, 0, 1, false), Need: []string{"TruncatedDeltas"}},
			{P: P("S5", 130, 2, 3, 0, 1, false), Need: []string{"TruncatedDigests"}},
			// datagrams that carry the internal markers (compaction, leave)
			{P: P("S2", 165, 4, 3, 0, 1, false), Need: []string{"MarkersApplied"}},
			{P: P("S8", 1400, 4, 3, 0, 1, false), Need: []string{"LeavesSeen"}},
		}
		if run.Thorough() {
			jobs = []gossipJob{
				{P: P("S1", 165, 3, 4, 1, 2, false), Deadline: sec(300), Need: []string{"TruncatedDeltas"}},
				{P: P("S1", 170, 3, 4, 1, 2, false), Deadline: sec(300), Need: []string{"TruncatedDeltas"}},
				{P: P("S2", 145, 5, 4, 1, 2, false), Deadline: sec(300), Need: []string{"TruncatedDeltas"}},
				{P: P("S3", 165, 2, 3, 0, 1, false), Deadline: sec(300), Need: []string{"TruncatedDeltas"}},
				{P: P("S3", 210, 2, 3, 0, 1, false), Deadline: sec(300)},
				{P: P("S5", 130, 3, 4, 0, 2, false), Deadline: sec(300), Need: []string{"TruncatedDigests"}},
				{P: P("S8", 1400, 4, 4, 0, 2, false), Deadline: sec(300), Need: []string{"LeavesSeen"}},
			}
		}
		runGossip(run, "C13", jobs)
		states, _ := run.Coverage["states"].(int)
		// stalled stream peers (seq_c13_stall.go)
		stallCases := c13Stalls(run)
		run.Set("stalled_stream_peer_cases", stallCases)
		// C. hostile input in a worker process (address-space limit, watchdog)
		maxLen := "2"
		if run.Thorough() {
			maxLen = "3"
		}
		self, _ := os.Executable()
		progress, _ := os.CreateTemp("", "verif-c13-progress")
		progress.Close()
		defer func() {
			os.Remove(progress.Name())
			os.Remove(fmt.Sprintf("%s.%d", progress.Name(), 0))
		}()
		cmd := exec.Command("sh", "-c", `ulimit -v 12582912; exec "$0" C13-worker "$1"`, self, maxLen)
		cmd.Env = append(os.Environ(), "VERIF_C13_PROGRESS="+progress.Name())
		var out bytes.Buffer
		var errb bytes.Buffer
		cmd.Stdout = &out
		cmd.Stderr = &errb
		done := make(chan error, 1)
		if err := cmd.Start(); err != nil {
			evid.Fatal("start worker: %v", err)
		}
		go func() { done <- cmd.Wait() }()
		limit := 600 * time.Second
		if run.Thorough() {
			limit = 3600 * time.Second
		}
		var werr error
		select {
		case werr = <-done:
		case <-time.After(limit):
			_ = cmd.Process.Kill()
			<-done
			last, _ := os.ReadFile(fmt.Sprintf("%s.%d", progress.Name(), cmd.Process.Pid))
			run.Violation("C13", "handler-hang", fmt.Sprintf("hostile-input worker did not finish within %s; last batch: %s", limit, last), map[string]any{"engine": "E3-C13-hostile", "batch": string(last)})
		}
		os.Remove(fmt.Sprintf("%s.%d", progress.Name(), cmd.Process.Pid))
		var hr hostileResult
		if werr != nil {
			tail := errb.String()
			if len(tail) > 1500 {
				tail = tail[len(tail)-1500:]
			}
			run.Violation("C13", "handler-crash", fmt.Sprintf("hostile-input worker died (%v): %s", werr, tail), map[string]any{"engine": "E3-C13-hostile", "stderr": tail})
		} else if err := json.Unmarshal(bytes.TrimSpace(out.Bytes()), &hr); err != nil {
			if run.Violations() == 0 {
				evid.Fatal("worker output: %v: %s", err, out.String())
			}
		}
		for i, f := range hr.Failures {
			sig := "own-state-changed-by-hostile-input"
			if len(f) > 7 && f[:7] == "handler" {
				sig = "handler-panic"
			}
			run.Violation("C13", sig, f, map[string]any{"engine": "E3-C13-hostile", "input_hex": hr.FailInputs[i], "stream": hr.FailStream[i]})
		}
		for _, pf := range hr.PairFails {
			sig := "own-state-changed-by-hostile-sequence"
			if strings.Contains(pf.Msg, "handler panicked") {
				sig = "handler-panic-on-second-message"
			}
			run.Violation("C13", sig, pf.Msg, map[string]any{"engine": "E3-C13-pair", "pair": pf})
		}
		// values nested deeper than any datagram allows, in streams (one worker
		// process per case: seq_c13_nested.go)
		nc, nn := c13Nested(run)
		run.Set("nested_stream_cases", nc)
		run.Set("nested_stream_cases_not_completed", nn)
		fmt.Printf("  C13 hostile: %d inputs (%d short strings, %d datagram neighbours, %d stream neighbours) corpus=%d+%d; %d two-message sequences with a hostile id; %d nested-stream cases\n", hr.Inputs, hr.ShortAll, hr.PacketEdit, hr.StreamEdit, hr.Corpus, hr.Streams, hr.Pairs, nc)
		run.Sample(map[string]any{"kind": "hostile", "corpus_packets": hr.Corpus, "corpus_streams": hr.Streams})
		run.Set("evaluations", evals+states+int(hr.Inputs))
		run.Set("distinct_nontrivial", truncs+int(hr.PacketEdit)+int(hr.StreamEdit))
		run.Set("rule", "A: (digest/delta content, max packet size) pairs for every size from header-1 to full+1, non-trivial = truncating pairs; B: states of explored gossip worlds whose every emitted datagram is checked; C: every byte string up to length L plus every 1-edit neighbour (substitution, deletion, insertion, truncation) of every datagram/stream of a real exchange, non-trivial = the neighbours")
		run.Set("codec_pairs", evals)
		run.Set("codec_truncating_pairs", truncs)
		run.Set("hostile", hr)
		run.Set("exhaustive", true)
		delete(run.Coverage, "traces_validated_against_impl")
		return run.Finish()
	})
	replayers["E3-C13-hostile"] = func(path string) int {
		var doc struct {
			Replay struct {
				Input  string `json:"input_hex"`
				Stream bool   `json:"stream"`
			} `json:"replay"`
		}
		readJSON(path, &doc)
		in, _ := hex.DecodeString(doc.Replay.Input)
		m1 := newHostileNode().feed(doc.Replay.Stream, in)
		m2 := newHostileNode().feed(doc.Replay.Stream, in)
		fmt.Println(m1)
		if m1 != m2 {
			evid.Fatal("replay is not deterministic")
		}
		return 0
	}
	replayers["E3-C13"] = func(path string) int {
		b, _ := os.ReadFile(path)
		fmt.Println(string(b))
		return 0
	}
	_ = io.Discard
}
