package main

import (
	"crypto/rsa"
	"encoding/base64"
	"encoding/json"
	"fmt"
	"math/big"
	"net"
	"net/http"
	"sync"
	"sync/atomic"
	"time"

	"github.com/golang-jwt/jwt/v5"

	"github.com/andydunstall/piko/server/config"
	"verifharness/internal/e4"
	"verifharness/internal/evid"
)

// A remote JWKS endpoint whose key set is rotated while the node runs: the
// "configured keys" of such a port are whatever the endpoint publishes, re-read
// every cache TTL. Enumerated: {timeout set, unset} x {proxy, upstream, admin
// port} x the rotation sequence {A} -> {A,B} -> {B}: after each rotation (and
// a generous number of cache periods) tokens signed by a key the endpoint no
// longer publishes must be refused, tokens signed by a published key are
// expected to pass (the latter is a vacuity guard, not a demand of C09).
func c09Rotate(run *evid.Run, mu *sync.Mutex, evals, nontrivial *int) {
	k := e4.Keys()
	jwk := func(kid string, key *rsa.PrivateKey) map[string]any {
		b := func(x []byte) string { return base64.RawURLEncoding.EncodeToString(x) }
		return map[string]any{"kty": "RSA", "kid": kid, "use": "sig", "alg": "RS256", "n": b(key.PublicKey.N.Bytes()), "e": b(big.NewInt(int64(key.PublicKey.E)).Bytes())}
	}
	sets := map[string][]map[string]any{
		"A":  {jwk("ka", k.RSA)},
		"AB": {jwk("ka", k.RSA), jwk("kb", k.RSAOther)},
		"B":  {jwk("kb", k.RSAOther)},
	}
	mint := func(kid string, key *rsa.PrivateKey) string {
		t := jwt.NewWithClaims(jwt.SigningMethodRS256, jwt.MapClaims{"exp": time.Now().Add(time.Hour).Unix()})
		t.Header["kid"] = kid
		s, err := t.SignedString(key)
		if err != nil {
			panic(err)
		}
		return s
	}
	tokA, tokB := mint("ka", k.RSA), mint("kb", k.RSAOther)
	const ttl = 300 * time.Millisecond
	var wg sync.WaitGroup
	for _, timeout := range []time.Duration{0, 5 * time.Second} {
		wg.Add(1)
		go func(timeout time.Duration) {
			defer wg.Done()
			var cur atomic.Value
			cur.Store("A")
			var fetches atomic.Int64
			ln, err := net.Listen("tcp", "127.0.0.1:0")
			if err != nil {
				evid.Fatal("jwks endpoint: %v", err)
			}
			defer ln.Close()
			go func() {
				_ = http.Serve(ln, http.HandlerFunc(func(w http.ResponseWriter, r *http.Request) {
					fetches.Add(1)
					b, _ := json.Marshal(map[string]any{"keys": sets[cur.Load().(string)]})
					w.Header().Set("Content-Type", "application/json")
					_, _ = w.Write(b)
				}))
			}()
			nd, err := e4.StartNode(nil, func(c *config.Config) {
				c.Proxy.Auth.JWKS.Endpoint = "http://" + ln.Addr().String() + "/jwks.json"
				c.Proxy.Auth.JWKS.CacheTTL = ttl
				c.Proxy.Auth.JWKS.Timeout = timeout
				c.Upstream.Auth, c.Admin.Auth = c.Proxy.Auth, c.Proxy.Auth
			})
			if err != nil {
				evid.Fatal("start node with a remote JWKS (timeout %v): %v", timeout, err)
			}
			defer nd.Stop()
			present := func(port, tok string) (int, error) {
				var url string
				switch port {
				case "proxy":
					url = "http://" + nd.ProxyAddr() + "/x"
				case "upstream":
					url = "http://" + nd.UpstreamAddr() + "/piko/v1/upstream/e9" // no upgrade: 400 once authenticated
				case "admin":
					url = "http://" + nd.AdminAddr() + "/status/cluster/nodes"
				}
				req, _ := http.NewRequest("GET", url, nil)
				req.Header.Set("Authorization", "Bearer "+tok)
				req.Header.Set("x-piko-endpoint", "nobody")
				resp, err := e4.Client().Do(req)
				if err != nil {
					return 0, err
				}
				resp.Body.Close()
				return resp.StatusCode, nil
			}
			type step struct {
				set            string
				refuse, accept []string
			}
			toks := map[string]string{"A": tokA, "B": tokB}
			for _, st := range []step{{"A", []string{"B"}, []string{"A"}}, {"AB", nil, []string{"A", "B"}}, {"B", []string{"A"}, []string{"B"}}, {"A", []string{"B"}, []string{"A"}}} {
				cur.Store(st.set)
				// the rotation is visible once the endpoint has been fetched
				// again after the change; allow 100 cache periods for that
				base := fetches.Load()
				e4.WaitFor(100*ttl, func() bool { return fetches.Load() >= base+2 })
				refetched := fetches.Load() >= base+2
				time.Sleep(ttl)
				for _, port := range []string{"proxy", "upstream", "admin"} {
					for _, who := range st.refuse {
						code, err := present(port, toks[who])
						mu.Lock()
						*evals++
						*nontrivial++
						mu.Unlock()
						desc := fmt.Sprintf("remote JWKS (cache ttl %v, timeout %v) now publishing {%s} (endpoint re-fetched since the change: %v): token signed by key %s on the %s port -> status %d err %v", ttl, timeout, st.set, refetched, who, port, code, err)
						if err != nil {
							run.Violation("C09", "request-failed", desc, map[string]any{"engine": "E4-C09", "rotate_case": desc})
						} else if code != 401 {
							run.Violation("C09", "token-of-a-withdrawn-jwks-key-accepted", desc, map[string]any{"engine": "E4-C09", "rotate_case": desc})
						}
					}
					for _, who := range st.accept {
						code, err := present(port, toks[who])
						mu.Lock()
						*evals++
						if err == nil && code != 401 {
							c09Accepted++
							c09RotateAccepted++
						}
						mu.Unlock()
					}
				}
			}
		}(timeout)
	}
	wg.Wait()
}

var c09RotateAccepted int
