package main

import "github.com/andydunstall/piko/pkg/gossip"

type countFD struct{ n map[string]int }

func (f *countFD) Report(id string)               { f.n[id]++ }
func (f *countFD) SuspicionLevel(string) float64  { return 0 }
func (f *countFD) Remove(string)                  {}

func deltaShapes() map[string]func() []byte {
	h := gossip.VDeltaHeader{NodeID: "nY", Addr: "10.0.0.2:7000"}
	enc := func(d gossip.VDelta) []byte {
		b, err := gossip.VEncodeDelta(h, d, 1400)
		if err != nil {
			panic(err)
		}
		return b
	}
	own := []gossip.Entry{{Key: "proxy_addr", Value: "p", Version: 1}, {Key: "admin_addr", Value: "a", Version: 2}}
	return map[string]func() []byte{
		"no node entries at all":        func() []byte { return enc(nil) },
		"sender's header, zero entries": func() []byte { return enc(gossip.VDelta{{ID: "nY", Addr: "10.0.0.2:7000"}}) },
		"news about the sender":         func() []byte { return enc(gossip.VDelta{{ID: "nY", Addr: "10.0.0.2:7000", Entries: own}}) },
		"news about a third node only":  func() []byte { return enc(gossip.VDelta{{ID: "nZ", Addr: "10.0.0.3:7000", Entries: own}}) },
		"entries about the receiver":    func() []byte { return enc(gossip.VDelta{{ID: "local", Addr: "10.0.0.1:7000", Entries: own}}) },
		"a tombstone":                   func() []byte { return enc(gossip.VDelta{{ID: "nY", Addr: "10.0.0.2:7000", Entries: []gossip.Entry{{Key: "k", Version: 9, Deleted: true}}}}) },
	}
}
