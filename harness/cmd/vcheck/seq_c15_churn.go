package main

import (
	"fmt"
	"strings"

	"verifharness/internal/evid"
)

// c15Churn: "additions or removals at any point never ... starve a remaining
// upstream". n stable upstreams of one endpoint and one that comes and goes:
// every periodic pattern of up to six events out of {select, the flapping
// upstream connects, it disconnects} (well-formed, at least one select, the
// flapper gone at the end so that the pattern repeats), repeated 40 times on
// the real manager. Every selection returns a registered upstream of the
// endpoint, and every stable upstream is selected at least once.
func c15Churn(run *evid.Run) (cases int) {
	var patterns []string
	var rec func(cur string, present bool)
	rec = func(cur string, present bool) {
		if len(cur) > 0 && !present && strings.Contains(cur, "S") && strings.Contains(cur, "A") {
			patterns = append(patterns, cur)
		}
		if len(cur) == 6 {
			return
		}
		rec(cur+"S", present)
		if present {
			rec(cur+"R", false)
		} else {
			rec(cur+"A", true)
		}
	}
	rec("", false)
	for _, n := range []int{2, 3, 4} {
		for _, pat := range patterns {
			cases++
			var ups [][2]string
			for i := 0; i < n; i++ {
				ups = append(ups, [2]string{fmt.Sprintf("s%d", i), "e"})
			}
			ups = append(ups, [2]string{"flap", "e"})
			st := newMgrStack(ups, nil)
			for i := 0; i < n; i++ {
				st.mgr.AddConn(st.ups[i])
			}
			flap := st.ups[n]
			present := false
			counts := map[string]int{}
			var seq []string
			bad := ""
			for rep := 0; rep < 40 && bad == ""; rep++ {
				for _, ev := range pat {
					switch ev {
					case 'A':
						st.mgr.AddConn(flap)
						present = true
					case 'R':
						st.mgr.RemoveConn(flap)
						present = false
					case 'S':
						u, ok := st.mgr.Select("e", false)
						fu := st.byPtr[u]
						if !ok || fu == nil || (fu == flap && !present) {
							bad = fmt.Sprintf("selection returned %v (ok=%v) with the flapping upstream present=%v", fu, ok, present)
							break
						}
						counts[fu.name]++
						if len(seq) < 24 {
							seq = append(seq, fu.name)
						}
					}
				}
			}
			sig := "select-returned-unregistered"
			if bad == "" {
				for i := 0; i < n; i++ {
					if counts[fmt.Sprintf("s%d", i)] == 0 {
						sig = "registered-upstream-starved"
						bad = fmt.Sprintf("s%d stayed registered throughout and was never selected in %d selections; first selections: %v", i, 40*strings.Count(pat, "S"), seq)
						break
					}
				}
			}
			if bad != "" {
				run.Violation("C15", sig, fmt.Sprintf("%d stable upstreams, pattern %q (S select, A the extra upstream connects, R it disconnects) repeated 40 times: %s", n, pat, bad), map[string]any{"engine": "E3-C15-churn", "stable": n, "pattern": pat})
			}
		}
	}
	return
}
