package main

import (
	"fmt"
	"net"
	"sort"
	"strings"
	"sync"
	"time"

	"github.com/andydunstall/piko/pkg/gossip"
	"github.com/andydunstall/piko/pkg/log"
	"github.com/andydunstall/piko/server/cluster"
	sgossip "github.com/andydunstall/piko/server/gossip"
	"github.com/andydunstall/piko/server/upstream"
	"github.com/andydunstall/piko/verifshim/vsync"
	"verifharness/internal/sched"
)

// nodeCore is the shared-state core of one running node, all real:
// LoadBalancedManager, cluster.State, syncer, gossip clusterState with the
// real accrual failure detector and the real packetListener.
type nodeCore struct {
	mgr *upstream.LoadBalancedManager
	cs  *cluster.State
	syn *sgossip.VSyncer
	gs  *gossip.VClusterState
	fd  *gossip.VAccrualFD
	pl  *gossip.VPacketListener
	ups map[string]*fakeUpstream
}

type discardConn struct{}

func (discardConn) ReadFrom(p []byte) (int, net.Addr, error)     { return 0, nil, net.ErrClosed }
func (discardConn) WriteTo(p []byte, a net.Addr) (int, error)    { return len(p), nil }
func (discardConn) Close() error                                 { return nil }
func (discardConn) LocalAddr() net.Addr                          { return &net.UDPAddr{} }
func (discardConn) SetDeadline(time.Time) error                  { return nil }
func (discardConn) SetReadDeadline(time.Time) error              { return nil }
func (discardConn) SetWriteDeadline(time.Time) error             { return nil }

func newNodeCore() *nodeCore {
	c := newNodeCoreNoSync()
	c.syn.VSync(gossiperAdapter{c.gs})
	return c
}

// newNodeCoreNoSync: the same node before the syncer has been started.
func newNodeCoreNoSync() *nodeCore {
	c := &nodeCore{ups: map[string]*fakeUpstream{}}
	c.cs = cluster.NewState(&cluster.Node{ID: "local", ProxyAddr: "p-local", AdminAddr: "a-local"}, log.NewNopLogger())
	c.syn = sgossip.VNewSyncer(c.cs)
	c.fd = gossip.VNewAccrualFD(time.Second, 50)
	m := gossip.VNewMetrics()
	c.gs = gossip.VNewClusterState("local", "10.0.0.1:7000", c.fd, m, c.syn)
	c.mgr = upstream.NewLoadBalancedManager(c.cs, nil)
	c.pl = gossip.VNewPacketListener(discardConn{}, c.gs, c.fd, 1400, m)
	return c
}

func (c *nodeCore) up(name, ep string) *fakeUpstream {
	u, ok := c.ups[name]
	if !ok {
		u = &fakeUpstream{name: name, ep: ep}
		c.ups[name] = u
	}
	return u
}

func remoteDelta(id, addr string, entries ...gossip.Entry) []byte {
	b, err := gossip.VEncodeDelta(gossip.VDeltaHeader{NodeID: id, Addr: addr},
		gossip.VDelta{{ID: id, Addr: addr, Entries: entries}}, 1400)
	if err != nil {
		panic(err)
	}
	return b
}

func remoteDigest(id, addr string, entries ...gossip.VDigestEntry) []byte {
	b, err := gossip.VEncodeDigest(gossip.VDigestHeader{NodeID: id, Addr: addr, Request: true}, entries, 1400)
	if err != nil {
		panic(err)
	}
	return b
}

// learnRemote makes the node know a remote node Y completely (set-up, not
// under the scheduler).
func (c *nodeCore) learnRemote(id, addr string, eps ...string) {
	es := []gossip.Entry{{Key: "proxy_addr", Value: "p-" + id, Version: 1}, {Key: "admin_addr", Value: "a-" + id, Version: 2}}
	for i, e := range eps {
		es = append(es, gossip.Entry{Key: "endpoint:" + e, Value: "1", Version: uint64(3 + i)})
	}
	if err := c.pl.VHandlePacket(remoteDelta(id, addr, es...)); err != nil {
		panic(err)
	}
}

// quiescent: registry == routing table == published gossip entries.
func (c *nodeCore) quiescent() []string {
	st := &mgrStack{mgr: c.mgr, cs: c.cs, syn: c.syn, gs: c.gs}
	reg := c.mgr.Endpoints()
	if sig, msg := st.consistent(reg); sig != "" {
		return []string{sig + ": " + msg}
	}
	return nil
}

func (c *nodeCore) finalState() string {
	st := &mgrStack{mgr: c.mgr, cs: c.cs, syn: c.syn, gs: c.gs}
	pub, _ := st.published()
	var ns []string
	for _, n := range c.cs.Nodes() {
		ns = append(ns, descClusterNodeM(n))
	}
	sort.Strings(ns)
	return countsStr(c.mgr.Endpoints()) + "|" + countsStr(pub) + "|" + strings.Join(ns, ",")
}

func descClusterNodeM(n *cluster.Node) string {
	return fmt.Sprintf("%s/%s/%s", n.ID, n.Status, countsStr(n.Endpoints))
}

// ---------------------------------------------------------------------------
// operation history for window-linearisability

type opRec struct {
	thread   int
	name     string
	call     int
	ret      int
	result   string
	apply    func(m *specState) string // sequential specification
}

type specState struct {
	members map[string]map[string]bool // endpoint -> registered upstream names
	remote  map[string]bool            // endpoint -> a remote active node advertises it
}

type history struct {
	mu    sync.Mutex // the harness' own (real) mutex: free-running pass
	clock int
	ops   []*opRec
}

func (h *history) begin(thread int, name string, apply func(m *specState) string) *opRec {
	h.mu.Lock()
	defer h.mu.Unlock()
	h.clock++
	r := &opRec{thread: thread, name: name, call: h.clock, apply: apply}
	h.ops = append(h.ops, r)
	return r
}

func (h *history) end(r *opRec, result string) {
	h.mu.Lock()
	defer h.mu.Unlock()
	h.clock++
	r.ret = h.clock
	r.result = result
}

// linearisable: is there a total order consistent with real time in which
// every operation's observed result is allowed by the specification? The
// spec's apply returns the set of allowed results encoded as "a|b|c" ("*" =
// any).
func (h *history) linearisable(init func() *specState) bool {
	n := len(h.ops)
	used := make([]bool, n)
	var order []int
	var rec func() bool
	rec = func() bool {
		if len(order) == n {
			st := init()
			for _, i := range order {
				allowed := h.ops[i].apply(st)
				if allowed == "*" {
					continue
				}
				ok := false
				for _, a := range strings.Split(allowed, "|") {
					if a == h.ops[i].result {
						ok = true
					}
				}
				if !ok {
					return false
				}
			}
			return true
		}
		for i := 0; i < n; i++ {
			if used[i] {
				continue
			}
			// i may come next only if no unused op returned before i was called
			ok := true
			for j := 0; j < n; j++ {
				if j != i && !used[j] && h.ops[j].ret != 0 && h.ops[j].ret < h.ops[i].call {
					ok = false
				}
			}
			if !ok {
				continue
			}
			used[i] = true
			order = append(order, i)
			if rec() {
				return true
			}
			order = order[:len(order)-1]
			used[i] = false
		}
		return false
	}
	return rec()
}

func (h *history) String() string {
	var sb strings.Builder
	for _, o := range h.ops {
		fmt.Fprintf(&sb, "T%d %s [%d,%d] -> %s; ", o.thread, o.name, o.call, o.ret, o.result)
	}
	return sb.String()
}

// instrumented operations ---------------------------------------------------

func (c *nodeCore) opAdd(h *history, t int, u *fakeUpstream) {
	r := h.begin(t, "Add("+u.name+")", func(m *specState) string {
		if m.members[u.ep] == nil {
			m.members[u.ep] = map[string]bool{}
		}
		m.members[u.ep][u.name] = true
		return "*"
	})
	c.mgr.AddConn(u)
	h.end(r, "")
}

func (c *nodeCore) opRemove(h *history, t int, u *fakeUpstream) {
	r := h.begin(t, "Remove("+u.name+")", func(m *specState) string {
		delete(m.members[u.ep], u.name)
		return "*"
	})
	c.mgr.RemoveConn(u)
	h.end(r, "")
}

func (c *nodeCore) opSelect(h *history, t int, ep string, allow bool) {
	r := h.begin(t, fmt.Sprintf("Select(%s,%v)", ep, allow), func(m *specState) string {
		var names []string
		for n := range m.members[ep] {
			names = append(names, n)
		}
		if len(names) > 0 {
			sort.Strings(names)
			return strings.Join(names, "|")
		}
		if allow && m.remote[ep] {
			return "remote"
		}
		return "none"
	})
	u, ok := c.mgr.Select(ep, allow)
	res := "none"
	if ok && u != nil {
		if fu, local := u.(*fakeUpstream); local {
			res = fu.name
			if fu.ep != ep {
				res = "WRONG-ENDPOINT:" + fu.name
			}
		} else if u.Forward() {
			res = "remote"
			if u.EndpointID() != ep {
				res = "WRONG-ENDPOINT:remote"
			}
			if nu, isNode := u.(*upstream.NodeUpstream); isNode && nu.VNodeID() == "local" {
				res = "SELF-FORWARD"
			}
			if !allow {
				res = "FORWARDED-A-FORWARDED-REQUEST"
			}
		}
	} else if ok {
		res = "nil-upstream"
	}
	h.end(r, res)
}

// ---------------------------------------------------------------------------
// programs

type schedProgram struct {
	Name  string
	Build sched.Program
	// last execution's observable summary, for counting distinct outcomes
	outcome *string
}

func progA() schedProgram {
	var last string
	return schedProgram{Name: "A-add-remove-select", outcome: &last, Build: func() ([]func(), func(o *vsync.Outcome) []string) {
		c := newNodeCore()
		h := &history{}
		u1, u2 := c.up("u1", "e1"), c.up("u2", "e1")
		bodies := []func(){
			func() { c.opAdd(h, 0, u1); c.opRemove(h, 0, u1) },
			func() { c.opAdd(h, 1, u2); c.opRemove(h, 1, u2); c.opRemove(h, 1, u2) },
			func() { c.opSelect(h, 2, "e1", true); c.opSelect(h, 2, "e1", false) },
		}
		check := func(o *vsync.Outcome) []string {
			var msgs []string
			msgs = append(msgs, c.quiescent()...)
			if got := countsStr(c.mgr.Endpoints()); got != "" {
				msgs = append(msgs, "registry-not-empty: every upstream was removed but the registry holds {"+got+"}")
			}
			if !h.linearisable(func() *specState { return &specState{members: map[string]map[string]bool{}, remote: map[string]bool{}} }) {
				msgs = append(msgs, "select-not-linearisable: no order of the overlapping Add/Remove calls explains the Select results: "+h.String())
			}
			last = c.finalState() + " " + selectResults(h)
			return msgs
		}
		return bodies, check
	}}
}

func selectResults(h *history) string {
	var s []string
	for _, o := range h.ops {
		if strings.HasPrefix(o.name, "Select") {
			s = append(s, o.result)
		}
	}
	return strings.Join(s, ",")
}

func progB() schedProgram {
	var last string
	return schedProgram{Name: "B-connect-gossip-periodic-status", outcome: &last, Build: func() ([]func(), func(o *vsync.Outcome) []string) {
		c := newNodeCore()
		h := &history{}
		// Z: known, silent for an hour -> will be flagged and can expire
		c.learnRemote("nZ", "10.0.0.3:7000", "e2")
		c.fd.Remove("nZ")
		c.fd.ReportWithTimestamp("nZ", time.Now().Add(-2*time.Hour))
		u3 := c.up("u3", "e2")
		u0 := c.up("u0", "e1")
		c.mgr.AddConn(u0)
		c.mgr.RemoveConn(u0) // leaves a tombstone so that compaction has work
		// e2 already has one upstream, so a status snapshot of the local node
		// taken before u3 connects holds a non-empty endpoint map
		c.mgr.AddConn(c.up("u9", "e2"))
		yJoin := remoteDelta("nY", "10.0.0.2:7000",
			gossip.Entry{Key: "proxy_addr", Value: "p-nY", Version: 1},
			gossip.Entry{Key: "admin_addr", Value: "a-nY", Version: 2},
			gossip.Entry{Key: "endpoint:e1", Value: "1", Version: 3})
		type snap struct {
			n    *cluster.Node
			then string
		}
		var snaps []snap
		take := func(ns ...*cluster.Node) {
			for _, n := range ns {
				snaps = append(snaps, snap{n, descClusterNodeM(n)})
			}
		}
		bodies := []func(){
			func() { c.opAdd(h, 0, u3) },
			func() { _ = c.pl.VHandlePacket(yJoin) },
			func() {
				c.gs.UpdateLiveness(float64(gossip.VSuspicionThreshold))
				c.gs.RemoveExpiredAt(time.Now().Add(10 * time.Minute))
				c.gs.CompactLocal(1)
			},
			func() {
				_ = c.mgr.Endpoints()
				// status handlers keep (and serialise) what these calls return
				// after the lock is released: a snapshot must not change later
				take(c.cs.Nodes()...)
				take(c.cs.LocalNode())
				if n, ok := c.cs.LookupEndpoint("e2"); ok {
					take(n)
				}
				if n, ok := c.cs.Node("nZ"); ok {
					take(n)
				}
				_ = c.gs.Nodes()
				_ = c.gs.Delta(c.gs.Digest(), true)
			},
		}
		check := func(o *vsync.Outcome) []string {
			var msgs []string
			msgs = append(msgs, c.quiescent()...)
			for _, s := range snaps {
				if now := descClusterNodeM(s.n); now != s.then {
					msgs = append(msgs, fmt.Sprintf("snapshot-changed-after-return: a node snapshot returned by the routing table read %q when it was taken and reads %q now", s.then, now))
					break
				}
			}
			if got := countsStr(c.mgr.Endpoints()); got != "e2=2" {
				msgs = append(msgs, "registry-wrong: expected {e2=2}, registry holds {"+got+"}")
			}
			// Y fully delivered -> must be in the routing table with e1
			if n, ok := c.cs.Node("nY"); !ok || n.Endpoints["e1"] != 1 || n.Status != cluster.NodeStatusActive {
				msgs = append(msgs, fmt.Sprintf("remote-node-not-mirrored: nY delivered completely but routing table has %v", n))
			}
			// Z was flagged and swept -> gone from gossip and routing table
			if _, ok := c.gs.Node("nZ"); ok {
				if _, ok2 := c.cs.Node("nZ"); !ok2 {
					msgs = append(msgs, "routing-table-lost-node: nZ still known to gossip but missing from the routing table")
				}
			} else if _, ok2 := c.cs.Node("nZ"); ok2 {
				msgs = append(msgs, "expired-node-in-routing-table: nZ expired from gossip but still in the routing table")
			}
			last = c.finalState()
			return msgs
		}
		return bodies, check
	}}
}

func progC() schedProgram {
	var last string
	return schedProgram{Name: "C-select-remote-vs-withdraw-vs-suspect", outcome: &last, Build: func() ([]func(), func(o *vsync.Outcome) []string) {
		c := newNodeCore()
		h := &history{}
		c.learnRemote("nY", "10.0.0.2:7000", "e1")
		// the detector last heard from nY two hours ago
		c.fd.Remove("nY")
		c.fd.ReportWithTimestamp("nY", time.Now().Add(-2*time.Hour))
		withdraw := remoteDelta("nY", "10.0.0.2:7000", gossip.Entry{Key: "endpoint:e1", Version: 4, Deleted: true})
		bodies := []func(){
			func() { c.opSelect(h, 0, "e1", true); c.opSelect(h, 0, "e1", false) },
			func() {
				r := h.begin(1, "withdraw(nY,e1)", func(m *specState) string { m.remote["e1"] = false; return "*" })
				_ = c.pl.VHandlePacket(withdraw)
				h.end(r, "")
			},
			func() {
				var r *opRec
				r = h.begin(2, "liveness()", func(m *specState) string {
					if r.result == "flagged" {
						m.remote["e1"] = false
					}
					return "*"
				})
				c.gs.UpdateLiveness(float64(gossip.VSuspicionThreshold))
				res := "trusted"
				if n, ok := c.gs.Node("nY"); ok && n.Unreachable {
					res = "flagged"
				}
				h.end(r, res)
			},
		}
		check := func(o *vsync.Outcome) []string {
			var msgs []string
			msgs = append(msgs, c.quiescent()...)
			if !h.linearisable(func() *specState {
				return &specState{members: map[string]map[string]bool{}, remote: map[string]bool{"e1": true}}
			}) {
				msgs = append(msgs, "select-not-linearisable: "+h.String())
			}
			if n, ok := c.cs.LookupEndpoint("e1"); ok {
				msgs = append(msgs, "withdrawn-endpoint-still-routable: LookupEndpoint(e1) returns "+n.ID+" after the withdrawal was applied")
			}
			last = c.finalState() + " " + selectResults(h)
			return msgs
		}
		return bodies, check
	}}
}

func progD() schedProgram {
	var last string
	return schedProgram{Name: "D-add-vs-remove-vs-digest", outcome: &last, Build: func() ([]func(), func(o *vsync.Outcome) []string) {
		c := newNodeCore()
		h := &history{}
		c.learnRemote("nY", "10.0.0.2:7000", "e2")
		u1 := c.up("u1", "e1")
		dg := remoteDigest("nY", "10.0.0.2:7000", gossip.VDigestEntry{ID: "nY", Addr: "10.0.0.2:7000", Version: 3}, gossip.VDigestEntry{ID: "local", Addr: "10.0.0.1:7000", Version: 0})
		bodies := []func(){
			func() { c.opAdd(h, 0, u1) },
			func() { c.opRemove(h, 1, u1) },
			func() { _ = c.pl.VHandlePacket(dg) },
			func() { c.opSelect(h, 3, "e1", false) },
		}
		check := func(o *vsync.Outcome) []string {
			var msgs []string
			msgs = append(msgs, c.quiescent()...)
			if !h.linearisable(func() *specState { return &specState{members: map[string]map[string]bool{}, remote: map[string]bool{}} }) {
				msgs = append(msgs, "select-not-linearisable: "+h.String())
			}
			last = c.finalState() + " " + selectResults(h)
			return msgs
		}
		return bodies, check
	}}
}

// progE: two request handlers selecting on the same endpoint while a third
// upstream connects. Under the cooperative scheduler this checks that every
// result is a registered upstream and that the three selections of each
// thread see each member of a stable set once; in the free-running -race pass
// it is what exposes a selector that mutates the cursor without exclusion.
func progE() schedProgram {
	var last string
	return schedProgram{Name: "E-two-selectors-and-connect", outcome: &last, Build: func() ([]func(), func(o *vsync.Outcome) []string) {
		c := newNodeCore()
		h := &history{}
		u1, u2, u3 := c.up("u1", "e1"), c.up("u2", "e1"), c.up("u3", "e1")
		c.mgr.AddConn(u1)
		c.mgr.AddConn(u2)
		bodies := []func(){
			func() { c.opSelect(h, 0, "e1", false); c.opSelect(h, 0, "e1", false) },
			func() { c.opSelect(h, 1, "e1", false); c.opSelect(h, 1, "e1", false) },
			func() { c.opAdd(h, 2, u3) },
		}
		check := func(o *vsync.Outcome) []string {
			var msgs []string
			msgs = append(msgs, c.quiescent()...)
			if !h.linearisable(func() *specState {
				return &specState{members: map[string]map[string]bool{"e1": {"u1": true, "u2": true}}, remote: map[string]bool{}}
			}) {
				msgs = append(msgs, "select-not-linearisable: "+h.String())
			}
			// fairness at quiescence: three members now, any three further
			// selections return each once
			seen := map[string]bool{}
			for i := 0; i < 3; i++ {
				if u, ok := c.mgr.Select("e1", false); ok && u != nil {
					seen[u.(*fakeUpstream).name] = true
				}
			}
			if len(seen) != 3 {
				msgs = append(msgs, fmt.Sprintf("select-unfair-after-concurrency: three selections over three members returned only %v", seen))
			}
			last = c.finalState() + " " + selectResults(h)
			return msgs
		}
		return bodies, check
	}}
}

// progF: requests (fresh and already-forwarded) for an endpoint whose first
// local upstream is connecting and disconnecting, with and without another
// node serving it: a request is served locally, forwarded to that other
// node (only if it has not been forwarded yet) or refused - never handed to
// the node itself.
func progF(withRemote bool) schedProgram {
	var last string
	name := "F-forward-while-connecting"
	if withRemote {
		name = "F-forward-while-connecting-with-remote"
	}
	return schedProgram{Name: name, outcome: &last, Build: func() ([]func(), func(o *vsync.Outcome) []string) {
		c := newNodeCore()
		h := &history{}
		if withRemote {
			c.learnRemote("nY", "10.0.0.2:7000", "e1")
		}
		u1 := c.up("u1", "e1")
		bodies := []func(){
			func() { c.opAdd(h, 0, u1); c.opRemove(h, 0, u1) },
			func() { c.opSelect(h, 1, "e1", true); c.opSelect(h, 1, "e1", true) },
			func() { c.opSelect(h, 2, "e1", false); c.opSelect(h, 2, "e1", true) },
		}
		check := func(o *vsync.Outcome) []string {
			var msgs []string
			for _, op := range h.ops {
				if op.result == "SELF-FORWARD" {
					msgs = append(msgs, "select-forwards-to-self: "+op.name+" returned the local node as the node to forward to: "+h.String())
				}
				if op.result == "FORWARDED-A-FORWARDED-REQUEST" {
					msgs = append(msgs, "select-forwards-twice: "+op.name+" returned a node although the request was already forwarded: "+h.String())
				}
			}
			msgs = append(msgs, c.quiescent()...)
			if !h.linearisable(func() *specState {
				return &specState{members: map[string]map[string]bool{}, remote: map[string]bool{"e1": withRemote}}
			}) {
				msgs = append(msgs, "select-not-linearisable: no order of the overlapping Add/Remove calls explains the Select results: "+h.String())
			}
			last = c.finalState() + " " + selectResults(h)
			return msgs
		}
		return bodies, check
	}}
}

func allSchedPrograms() []schedProgram {
	return []schedProgram{progA(), progB(), progC(), progD(), progE(), progF(false), progF(true), progG(), progH(), progI(), progJ(), progL()}
}
