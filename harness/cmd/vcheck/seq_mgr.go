package main

import (
	"fmt"
	"net"
	"sort"
	"strconv"
	"strings"
	"time"

	"github.com/andydunstall/piko/pkg/gossip"
	"github.com/andydunstall/piko/pkg/log"
	"github.com/andydunstall/piko/server/cluster"
	sgossip "github.com/andydunstall/piko/server/gossip"
	"github.com/andydunstall/piko/server/upstream"
	"verifharness/internal/evid"
	"verifharness/internal/mc"
)

// One node's registry stack, all real: LoadBalancedManager -> cluster.State
// -> syncer (subscriber) -> gossip clusterState (local node).

type fakeUpstream struct {
	name string
	ep   string
}

func (u *fakeUpstream) EndpointID() string      { return u.ep }
func (u *fakeUpstream) Dial() (net.Conn, error) { return nil, fmt.Errorf("not dialable") }
func (u *fakeUpstream) Forward() bool           { return false }

type mgrStack struct {
	mgr   *upstream.LoadBalancedManager
	cs    *cluster.State
	syn   *sgossip.VSyncer
	gs    *gossip.VClusterState
	ups   []*fakeUpstream
	byPtr map[upstream.Upstream]*fakeUpstream
}

// gossiperAdapter gives the syncer the two methods it needs.
type gossiperAdapter struct{ s *gossip.VClusterState }

func (g gossiperAdapter) UpsertLocal(k, v string) { g.s.UpsertLocal(k, v) }
func (g gossiperAdapter) DeleteLocal(k string)    { g.s.DeleteLocal(k) }

func newMgrStack(upstreams [][2]string, remote map[string][]string) *mgrStack {
	st := &mgrStack{byPtr: map[upstream.Upstream]*fakeUpstream{}}
	st.cs = cluster.NewState(&cluster.Node{ID: "local", ProxyAddr: "p-local", AdminAddr: "a-local"}, log.NewNopLogger())
	st.syn = sgossip.VNewSyncer(st.cs)
	st.gs = gossip.VNewClusterState("local", "10.0.0.1:7000", nopFD{}, sharedGossipMetrics, st.syn)
	st.syn.VSync(gossiperAdapter{st.gs})
	st.mgr = upstream.NewLoadBalancedManager(st.cs, nil)
	for _, u := range upstreams {
		fu := &fakeUpstream{name: u[0], ep: u[1]}
		st.ups = append(st.ups, fu)
		st.byPtr[fu] = fu
	}
	// remote nodes advertising endpoints (routing table offers a node)
	var ids []string
	for id := range remote {
		ids = append(ids, id)
	}
	sort.Strings(ids)
	for _, id := range ids {
		// a node whose id starts with "g" is learned the way the server learns
		// nodes: through gossip entries that the real syncer turns into routing
		// table updates
		if strings.HasPrefix(id, "g") {
			es := []gossip.Entry{{Key: "proxy_addr", Value: "p-" + id, Version: 1}, {Key: "admin_addr", Value: "a-" + id, Version: 2}}
			for i, e := range remote[id] {
				es = append(es, gossip.Entry{Key: "endpoint:" + e, Value: "1", Version: uint64(3 + i)})
			}
			st.gs.ApplyDelta(gossip.VDelta{{ID: id, Addr: "10.0.0.7:7000", Entries: es}})
			continue
		}
		eps := map[string]int{}
		for _, e := range remote[id] {
			// "<endpoint>:0": the node lists the endpoint with a zero count
			// (nobody listening there), which is not an offer
			if name, zero := strings.CutSuffix(e, ":0"); zero {
				eps[name] = 0
				continue
			}
			eps[e] = 1
		}
		st.cs.AddNode(&cluster.Node{ID: id, Status: cluster.NodeStatusActive, ProxyAddr: "p-" + id, AdminAddr: "a-" + id, Endpoints: eps})
	}
	return st
}

// registered returns the harness' own bookkeeping-free view of the registry:
// per endpoint the ordered list of upstream names and the cursor.
func (st *mgrStack) balancers() string {
	var sb strings.Builder
	for _, b := range st.mgr.VBalancers() {
		fmt.Fprintf(&sb, "%s[", b.Endpoint)
		for _, u := range b.Upstreams {
			sb.WriteString(st.byPtr[u].name + " ")
		}
		fmt.Fprintf(&sb, "]@%d ", b.NextIndex)
	}
	return sb.String()
}

// published returns endpoint -> advertised count from the local gossip state
// (live "endpoint:<id>" entries).
func (st *mgrStack) published() (map[string]int, []string) {
	out := map[string]int{}
	var bad []string
	for _, e := range st.gs.LocalNode().Entries {
		if e.Internal || !strings.HasPrefix(e.Key, "endpoint:") {
			continue
		}
		if e.Deleted {
			continue
		}
		n, err := strconv.Atoi(e.Value)
		if err != nil {
			bad = append(bad, fmt.Sprintf("%s=%q", e.Key, e.Value))
			continue
		}
		out[strings.TrimPrefix(e.Key, "endpoint:")] = n
	}
	return out, bad
}

func countsStr(m map[string]int) string {
	var ks []string
	for k, v := range m {
		if v != 0 {
			ks = append(ks, fmt.Sprintf("%s=%d", k, v))
		}
	}
	sort.Strings(ks)
	return strings.Join(ks, " ")
}

// consistent checks registry == routing table == published gossip entries.
func (st *mgrStack) consistent(truth map[string]int) (string, string) {
	reg := st.mgr.Endpoints()
	rt := st.cs.LocalNode().Endpoints
	pub, bad := st.published()
	if len(bad) > 0 {
		return "published-count-not-a-number", fmt.Sprintf("published entries %v", bad)
	}
	// an endpoint nobody listens on is not listed at all - not with a zero count
	for where, m := range map[string]map[string]int{"routing table": rt, "published gossip entries": pub, "registry": reg} {
		for ep, n := range m {
			if n <= 0 {
				return "endpoint-listed-without-upstream", fmt.Sprintf("%s lists endpoint %s with count %d although no upstream is connected for it", where, ep, n)
			}
		}
	}
	a, b, c, d := countsStr(truth), countsStr(reg), countsStr(rt), countsStr(pub)
	if a != b {
		return "registry-differs-from-connected", fmt.Sprintf("connected {%s} but registry holds {%s}", a, b)
	}
	if b != c || c != d {
		return "advertised-differs-from-registered", fmt.Sprintf("registered {%s}, routing table {%s}, published to gossip {%s}", b, c, d)
	}
	return "", ""
}

type mgrEvent struct {
	Kind  string `json:"kind"` // add remove select
	U     int    `json:"u,omitempty"`
	E     string `json:"e,omitempty"`
	Allow bool   `json:"allow,omitempty"`
}

func (e mgrEvent) String() string {
	switch e.Kind {
	case "select":
		return fmt.Sprintf("select(%s,allowRemote=%v)", e.E, e.Allow)
	}
	return fmt.Sprintf("%s(u%d)", e.Kind, e.U)
}

type mgrSys struct {
	Prop      string
	Upstreams [][2]string
	Remote    map[string][]string
	Endpoints []string
	Selects   bool
	Echo      bool
}

type mgrInst struct {
	sys   *mgrSys
	st    *mgrStack
	in    []bool // currently registered (connected) upstreams, by index
	order map[string][]int
	stuck bool
}

func (s *mgrSys) New() mc.Instance[mgrEvent] {
	return &mgrInst{sys: s, st: newMgrStack(s.Upstreams, s.Remote), in: make([]bool, len(s.Upstreams)), order: map[string][]int{}}
}

func (in *mgrInst) Enabled() []mgrEvent {
	var evs []mgrEvent
	for i := range in.st.ups {
		if !in.in[i] {
			// a connection registers once; it may register again after it
			// was removed (reconnect)
			evs = append(evs, mgrEvent{Kind: "add", U: i})
		}
		// removal is always possible: duplicates, late removals, unknown
		evs = append(evs, mgrEvent{Kind: "remove", U: i})
	}
	if in.sys.Echo {
		// a peer that remembers an earlier incarnation of this node (same id,
		// restarted without leaving) sends that state back
		evs = append(evs, mgrEvent{Kind: "echo"})
		// the periodic compaction of the node's own gossip state
		evs = append(evs, mgrEvent{Kind: "compact"})
	}
	if in.sys.Selects {
		for _, e := range in.sys.Endpoints {
			evs = append(evs, mgrEvent{Kind: "select", E: e, Allow: true}, mgrEvent{Kind: "select", E: e, Allow: false})
		}
	}
	return evs
}

func (in *mgrInst) truth() map[string]int {
	m := map[string]int{}
	for i, ok := range in.in {
		if ok {
			m[in.st.ups[i].ep]++
		}
	}
	return m
}

func (in *mgrInst) Replay(e mgrEvent)               { in.step(e, false) }
func (in *mgrInst) Apply(e mgrEvent) []mc.Violation { return in.step(e, true) }

func (in *mgrInst) step(e mgrEvent, check bool) (vs []mc.Violation) {
	prop := in.sys.Prop
	bad := func(sig, format string, a ...any) {
		vs = append(vs, mc.Violation{Property: prop, Clause: sig, Sig: sig, Msg: fmt.Sprintf(format, a...)})
	}
	defer func() {
		if r := recover(); r != nil {
			vs = append(vs, mc.Violation{Property: prop, Clause: "panic", Sig: "panic", Msg: fmt.Sprintf("%s panicked: %v", e, r)})
		}
	}()
	if in.stuck {
		// an earlier operation of this history never returned (it is reported
		// where it happened); the instance cannot be driven any further
		return nil
	}
	// every operation completes: run it under a watchdog so that a lock left
	// held by an earlier call shows as a violation instead of hanging the search
	var su upstream.Upstream
	var sok bool
	done := make(chan any, 1)
	go func() {
		defer func() { done <- recover() }()
		switch e.Kind {
		case "add":
			in.st.mgr.AddConn(in.st.ups[e.U])
		case "remove":
			in.st.mgr.RemoveConn(in.st.ups[e.U])
		case "select":
			su, sok = in.st.mgr.Select(e.E, e.Allow)
		case "compact":
			in.st.gs.CompactLocal(1)
		case "echo":
			in.st.gs.ApplyDigest(gossip.VDigest{{ID: "local", Addr: "10.0.0.1:7000", Version: 5000}})
			in.st.gs.ApplyDelta(gossip.VDelta{{ID: "local", Addr: "10.0.0.1:7000", Entries: []gossip.Entry{
				{Key: "endpoint:e1", Value: "7", Version: 1000},
				{Key: "endpoint:ghost", Value: "1", Version: 1001},
				{Key: "endpoint:e2", Version: 1002, Deleted: true},
			}}})
		}
		// a lock left held by this very call would block the next one: take
		// and release it once more inside the watchdog
		_ = in.st.mgr.Endpoints()
	}()
	select {
	case r := <-done:
		if r != nil {
			panic(r)
		}
	case <-time.After(10 * time.Second):
		in.stuck = true
		if check {
			bad("operation-never-returned", "%s did not return within 10s (the operations before it in this history all returned)", e)
		}
		return vs
	}
	switch e.Kind {
	case "add":
		in.in[e.U] = true
	case "remove":
		in.in[e.U] = false
	case "select":
		if check && prop == "C15" {
			in.checkSelect(e, su, sok, bad)
			// a selection must not depend on the selections made before it (state
			// that the canonical form cannot see, e.g. something remembered per
			// node): follow it, on the same instance, by a selection of every
			// endpoint that has no local upstream - those move no cursor, so the
			// explored state is unchanged on the unmodified tree
			for _, e2 := range in.sys.Endpoints {
				if len(in.members(e2)) > 0 {
					continue
				}
				f := mgrEvent{Kind: "select", E: e2, Allow: true}
				u2, ok2 := in.st.mgr.Select(e2, true)
				in.checkSelect(f, u2, ok2, func(sig, format string, a ...any) {
					bad(sig, "after "+e.String()+": "+format, a...)
				})
			}
		}
	}
	if check && prop == "C05" {
		if sig, msg := in.st.consistent(in.truth()); sig != "" {
			bad(sig, "after %s: %s", e, msg)
		}
		// "advertises to the cluster": a peer that takes the node's whole state
		// now (a joiner) is told exactly the registered endpoints
		obs := gossip.VNewClusterState("nP", "10.0.0.9:7000", nopFD{}, sharedGossipMetrics, nopWatcher{})
		syncObserver(in.st.gs, obs)
		told := map[string]int{}
		if ns, ok := obs.Node("local"); ok {
			for _, en := range ns.Entries {
				if strings.HasPrefix(en.Key, "endpoint:") && !en.Deleted {
					n := 0
					fmt.Sscanf(en.Value, "%d", &n)
					told[strings.TrimPrefix(en.Key, "endpoint:")] = n
				}
			}
		}
		if a, b := countsStr(in.truth()), countsStr(told); a != b {
			bad("peer-told-differently-from-registered", "after %s: registered {%s} but a peer taking the node's state now is told {%s}", e, a, b)
		}
	}
	return vs
}

func (in *mgrInst) members(ep string) map[string]bool {
	m := map[string]bool{}
	for i, ok := range in.in {
		if ok && in.st.ups[i].ep == ep {
			m[in.st.ups[i].name] = true
		}
	}
	return m
}

func (in *mgrInst) checkSelect(e mgrEvent, u upstream.Upstream, ok bool, bad func(string, string, ...any)) {
	mem := in.members(e.E)
	remoteOffers := false
	for _, eps := range in.sys.Remote {
		for _, x := range eps {
			if x == e.E {
				remoteOffers = true
			}
		}
	}
	if !ok {
		if len(mem) > 0 {
			bad("select-missed-registered-upstream", "%s found nothing although %v are registered", e, mem)
		}
		if len(mem) == 0 && e.Allow && remoteOffers {
			bad("select-missed-remote-node", "%s found nothing although a remote node advertises the endpoint", e)
		}
		return
	}
	if u == nil {
		bad("select-returned-nil", "%s returned ok with a nil upstream", e)
		return
	}
	if u.EndpointID() != e.E {
		bad("select-wrong-endpoint", "%s returned an upstream of endpoint %s", e, u.EndpointID())
	}
	if fu, local := in.st.byPtr[u]; local {
		if !mem[fu.name] {
			bad("select-returned-unregistered", "%s returned %s which is not registered for that endpoint (registered: %v)", e, fu.name, mem)
		}
		return
	}
	// a remote node
	if !u.Forward() {
		bad("select-unknown-upstream", "%s returned an unknown local upstream", e)
	}
	if !e.Allow {
		bad("select-remote-when-not-allowed", "%s returned a remote node although forwarding was not allowed", e)
	}
	if len(mem) > 0 {
		bad("select-remote-despite-local", "%s returned a remote node although %v are registered locally", e, mem)
	}
	if !remoteOffers {
		bad("select-remote-not-advertising", "%s returned a remote node that does not advertise the endpoint", e)
	}
}

func (in *mgrInst) Canon() string {
	// the published gossip entries including tombstones (without versions):
	// "never advertised" and "advertised, then withdrawn" are different states
	// (they react differently to the next registration)
	var ents []string
	for _, e := range in.st.gs.LocalNode().Entries {
		if strings.HasPrefix(e.Key, "endpoint:") {
			ents = append(ents, fmt.Sprintf("%s=%q/%v", e.Key, e.Value, e.Deleted))
		}
	}
	sort.Strings(ents)
	return in.st.balancers() + "|" + countsStr(in.st.cs.LocalNode().Endpoints) + "|" + strings.Join(ents, ",") + "|" + fmt.Sprint(in.in)
}

// Final (C15): from this state, with the membership now stable, 2n further
// selections per endpoint: every window of n is a permutation of the members.
func (in *mgrInst) Final() (vs []mc.Violation) {
	if in.sys.Prop != "C15" {
		return nil
	}
	defer func() {
		if r := recover(); r != nil {
			vs = append(vs, mc.Violation{Property: "C15", Clause: "panic", Sig: "panic", Msg: fmt.Sprintf("selection panicked: %v", r)})
		}
	}()
	for _, ep := range in.sys.Endpoints {
		mem := in.members(ep)
		n := len(mem)
		if n == 0 {
			continue
		}
		var seq []string
		for i := 0; i < 2*n; i++ {
			u, ok := in.st.mgr.Select(ep, false)
			if !ok || u == nil {
				vs = append(vs, mc.Violation{Property: "C15", Clause: "fair", Sig: "select-missed-registered-upstream", Msg: fmt.Sprintf("selection %d for %s returned nothing with members %v", i, ep, mem)})
				return vs
			}
			fu, local := in.st.byPtr[u]
			if !local || !mem[fu.name] {
				vs = append(vs, mc.Violation{Property: "C15", Clause: "fair", Sig: "select-returned-unregistered", Msg: fmt.Sprintf("selection %d for %s returned a non-member", i, ep)})
				return vs
			}
			seq = append(seq, fu.name)
		}
		for w := 0; w+n <= len(seq); w++ {
			seen := map[string]bool{}
			for _, s := range seq[w : w+n] {
				seen[s] = true
			}
			if len(seen) != n {
				vs = append(vs, mc.Violation{Property: "C15", Clause: "fair", Sig: "round-robin-unfair", Msg: fmt.Sprintf("endpoint %s members %v: selections %v contain a window of %d that skips a member", ep, mem, seq, n)})
				return vs
			}
		}
	}
	return vs
}

type mgrReplay struct {
	Engine  string     `json:"engine"`
	Sys     mgrSys     `json:"sys"`
	History []mgrEvent `json:"history"`
	Pretty  []string   `json:"pretty"`
}

func runMgr(run *evid.Run, sys *mgrSys, deadline int) *mc.Result[mgrEvent] {
	res := mc.Explore[mgrEvent](sys, mc.Options{Deadline: sec(deadline), DeterminismEvery: 200,
		Known: func(v mc.Violation) bool { _, ok := evid.IsKnown(v.Property, v.Sig); return ok }})
	for _, f := range append(res.Known, res.Violations...) {
		var p []string
		for _, e := range f.History {
			p = append(p, e.String())
		}
		run.Violation(sys.Prop, f.V.Sig, f.V.Msg, mgrReplay{"E3-mgr", *sys, f.History, p})
	}
	for _, s := range res.Samples {
		var p []string
		for _, e := range s {
			p = append(p, e.String())
		}
		run.Sample(p)
	}
	fmt.Printf("  %s sequential: upstreams=%v states=%d transitions=%d depth=%d exhaustive=%v %s\n", sys.Prop, sys.Upstreams, res.States, res.Transitions, res.DepthCompleted, res.Exhaustive, res.CapHit)
	return res
}

func init() {
	replayers["E3-mgr"] = func(path string) int {
		var doc struct {
			Replay mgrReplay `json:"replay"`
		}
		readJSON(path, &doc)
		var outs [2]string
		for k := 0; k < 2; k++ {
			sys := doc.Replay.Sys
			in := sys.New().(*mgrInst)
			out := ""
			for i, e := range doc.Replay.History {
				vs := in.Apply(e)
				out += fmt.Sprintf("%2d %s -> %s\n", i, e, in.Canon())
				for _, v := range vs {
					out += fmt.Sprintf("   -> %s [%s] %s\n", v.Property, v.Sig, v.Msg)
				}
			}
			for _, v := range in.Final() {
				out += fmt.Sprintf("   final -> %s [%s] %s\n", v.Property, v.Sig, v.Msg)
			}
			outs[k] = out
		}
		fmt.Print(outs[0])
		if outs[0] != outs[1] {
			evid.Fatal("replay is not deterministic")
		}
		return 0
	}
}
