package main

import (
	"context"
	"fmt"
	"net"
	"net/http"
	"sync"
	"sync/atomic"
	"time"

	"github.com/andydunstall/piko/pkg/auth"
	"github.com/andydunstall/piko/server/config"
	"verifharness/internal/e4"
	"verifharness/internal/evid"
)

// C16, client side and mixed tokens.
//
// (a) a real client.Listener behind a gate the harness can shut: the
// connection is lost, the listener is in its reconnect loop, it is shut down
// in that window, the server becomes reachable again. Nothing may register
// behind the back of a listener its owner has closed.
//
// (b) upstreams whose tokens expire, never expire and expire far in the
// future connected in every order: exactly the expired ones are closed.

type gate struct {
	ln     net.Listener
	target string
	mu     sync.Mutex
	open   bool
	conns  map[net.Conn]struct{}
	// blackhole: bytes in both directions are silently discarded and no close
	// is passed on: the network between the two sides has gone dark, neither
	// side gets a FIN or RST
	blackhole atomic.Bool
	held      []net.Conn
	// delay: every new connection waits this long (ns) before it is relayed: a
	// slow handshake
	delay atomic.Int64
}

// pump copies src to dst; while the gate is a black hole it swallows the data
// and keeps both sockets open whatever happens.
func (g *gate) pump(dst, src net.Conn, done chan<- struct{}) {
	defer func() { done <- struct{}{} }()
	buf := make([]byte, 32*1024)
	for {
		n, err := src.Read(buf)
		if g.blackhole.Load() {
			if err != nil {
				return
			}
			continue
		}
		if n > 0 {
			if _, werr := dst.Write(buf[:n]); werr != nil {
				return
			}
		}
		if err != nil {
			if !g.blackhole.Load() {
				dst.Close()
			}
			return
		}
	}
}

func newGate(target string) *gate {
	ln, err := net.Listen("tcp", "127.0.0.1:0")
	if err != nil {
		evid.Fatal("gate: %v", err)
	}
	g := &gate{ln: ln, target: target, open: true, conns: map[net.Conn]struct{}{}}
	go func() {
		for {
			c, err := ln.Accept()
			if err != nil {
				return
			}
			g.mu.Lock()
			ok := g.open
			if ok {
				g.conns[c] = struct{}{}
			}
			g.mu.Unlock()
			if !ok {
				c.Close()
				continue
			}
			go func() {
				defer func() {
					if !g.blackhole.Load() {
						c.Close()
					}
					g.mu.Lock()
					delete(g.conns, c)
					g.mu.Unlock()
				}()
				if d := g.delay.Load(); d > 0 {
					time.Sleep(time.Duration(d))
				}
				u, err := net.DialTimeout("tcp", g.target, 2*time.Second)
				if err != nil {
					return
				}
				done := make(chan struct{}, 2)
				go g.pump(u, c, done)
				go g.pump(c, u, done)
				<-done
				<-done
				if g.blackhole.Load() {
					// keep the server-side socket open: nobody tells the server
					g.mu.Lock()
					g.held = append(g.held, u)
					g.mu.Unlock()
					return
				}
				u.Close()
			}()
		}
	}()
	return g
}

// shut refuses new connections and cuts the existing ones.
func (g *gate) shut() {
	g.mu.Lock()
	g.open = false
	for c := range g.conns {
		c.Close()
	}
	g.mu.Unlock()
}

func (g *gate) reopen() {
	g.mu.Lock()
	g.open = true
	g.mu.Unlock()
}

type c16Reconnect struct {
	Listeners int    `json:"listeners"`
	Stop      string `json:"stop"`   // shutdown | close
	Window    string `json:"window"` // during-outage | after-reconnect | while-connected
}

func runC16Reconnect(c c16Reconnect) (sig, msg string) {
	nd, err := e4.StartNode(nil, nil)
	if err != nil {
		evid.Fatal("start node: %v", err)
	}
	defer nd.Stop()
	g := newGate(nd.UpstreamAddr())
	defer g.ln.Close()
	desc := fmt.Sprintf("%+v", c)
	var lns []*e4.StampListener
	defer func() {
		for _, l := range lns {
			_ = l.Ln.Shutdown()
		}
	}()
	for i := 0; i < c.Listeners; i++ {
		l, err := e4.Listen(context.Background(), g.ln.Addr().String(), "e1", fmt.Sprintf("l%d", i), e4.ListenOpts{MinBackoff: 20 * time.Millisecond, MaxBackoff: 100 * time.Millisecond})
		if err != nil {
			return "connect-failed", desc + ": " + err.Error()
		}
		lns = append(lns, l)
	}
	registered := func(n int) bool {
		return e4.WaitFor(15*time.Second, func() bool {
			return nd.State().LocalNode().Endpoints["e1"] == n && nd.Srv.VUpstreamServer().VOpenSessions() == n
		})
	}
	if !registered(c.Listeners) {
		return "not-registered-while-connected", fmt.Sprintf("%s: %d listeners connected, node has %v", desc, c.Listeners, nd.State().LocalNode().Endpoints)
	}
	stop := func() {
		for _, l := range lns {
			if c.Stop == "close" {
				_ = l.Ln.Close()
			} else {
				_ = l.Ln.Shutdown()
			}
		}
	}
	switch c.Window {
	case "while-connected":
		stop()
	case "during-outage":
		g.shut()
		if !registered(0) {
			return "registered-after-connection-lost", fmt.Sprintf("%s: connections cut, node still has %v", desc, nd.State().LocalNode().Endpoints)
		}
		time.Sleep(150 * time.Millisecond) // the listeners are retrying
		stop()
		g.reopen()
	case "mid-handshake":
		// the connection is lost, the server is reachable again but slow to
		// answer: the listener is stopped while its reconnect handshake is under way
		g.shut()
		if !registered(0) {
			return "registered-after-connection-lost", fmt.Sprintf("%s: connections cut, node still has %v", desc, nd.State().LocalNode().Endpoints)
		}
		g.delay.Store(int64(700 * time.Millisecond))
		g.reopen()
		time.Sleep(350 * time.Millisecond) // a retry (backoff <= 100ms) is now inside the delayed handshake
		stop()
		time.Sleep(time.Second)
		g.delay.Store(0)
	case "after-reconnect":
		g.shut()
		if !registered(0) {
			return "registered-after-connection-lost", fmt.Sprintf("%s: connections cut, node still has %v", desc, nd.State().LocalNode().Endpoints)
		}
		time.Sleep(150 * time.Millisecond)
		g.reopen()
		if !registered(c.Listeners) {
			return "not-registered-while-connected", fmt.Sprintf("%s: the server is reachable again and the listeners are open, node has %v", desc, nd.State().LocalNode().Endpoints)
		}
		stop()
	}
	if c.Stop == "close" {
		// Close stops accepting and keeps the connection; the harness (the
		// owner) then drops the connections it still holds
		time.Sleep(50 * time.Millisecond)
		for _, l := range lns {
			_ = l.Ln.Shutdown()
		}
	}
	// ten times the maximum backoff: anything still retrying has reconnected
	time.Sleep(1 * time.Second)
	if !registered(0) {
		return "registered-after-owner-closed-listener", fmt.Sprintf("%s: every listener was closed by its owner, yet the node has endpoints %v and %d open sessions", desc, nd.State().LocalNode().Endpoints, nd.Srv.VUpstreamServer().VOpenSessions())
	}
	for _, l := range lns {
		select {
		case <-l.Done():
		case <-time.After(10 * time.Second):
			return "accept-never-returned", desc + ": Accept did not return after the listener was closed"
		}
	}
	return "", ""
}

// runC16SilentDrop: two upstream connections, the network to one of them goes
// dark (no FIN, no RST, nothing arrives any more). The server has to notice by
// itself and deregister it; the healthy one stays.
func runC16SilentDrop() (sig, msg string) {
	nd, err := e4.StartNode(nil, nil)
	if err != nil {
		evid.Fatal("start node: %v", err)
	}
	defer nd.Stop()
	g := newGate(nd.UpstreamAddr())
	defer func() {
		g.ln.Close()
		g.mu.Lock()
		for _, c := range g.held {
			c.Close()
		}
		g.mu.Unlock()
	}()
	dark, err := dialRaw(g.ln.Addr().String(), "e1", "dark", "")
	if err != nil {
		return "connect-failed", err.Error()
	}
	defer dark.sess.Close()
	healthy, err := dialRaw(nd.UpstreamAddr(), "e1", "healthy", "")
	if err != nil {
		return "connect-failed", err.Error()
	}
	defer healthy.sess.Close()
	if !e4.WaitFor(15*time.Second, func() bool { return nd.State().LocalNode().Endpoints["e1"] == 2 }) {
		return "not-registered-while-connected", fmt.Sprintf("two upstreams connected, node has %v", nd.State().LocalNode().Endpoints)
	}
	g.blackhole.Store(true)
	t0 := time.Now()
	if !e4.WaitFor(100*time.Second, func() bool {
		return nd.State().LocalNode().Endpoints["e1"] == 1 && nd.Srv.VUpstreamServer().VOpenSessions() == 1
	}) {
		return "silently-dropped-connection-kept", fmt.Sprintf("the network to one of two upstreams went dark %s ago (no FIN/RST): the node still has endpoints %v and %d open sessions", time.Since(t0).Round(time.Second), nd.State().LocalNode().Endpoints, nd.Srv.VUpstreamServer().VOpenSessions())
	}
	if r := e4.DoHTTP(nd.ProxyAddr(), e4.Addressing{Mode: "header", Endpoint: "e1"}); r.Status != 200 || r.Upstream != "healthy" {
		return "remaining-upstream-unreachable", fmt.Sprintf("after the dark connection was dropped a request -> %s", r)
	}
	return "", ""
}

func c16ReconnectCases() []c16Reconnect {
	var out []c16Reconnect
	for _, n := range []int{1, 2} {
		for _, s := range []string{"shutdown", "close"} {
			for _, w := range []string{"while-connected", "during-outage", "mid-handshake", "after-reconnect"} {
				out = append(out, c16Reconnect{n, s, w})
			}
		}
	}
	return out
}

type c16Mixed struct {
	Kinds []string `json:"token_kinds"` // connect order: exp3 | noexp | far
	// Tenant: the upstreams belong to a tenant (x-piko-tenant-id) and their
	// tokens are verified with the tenant's key
	Tenant bool `json:"tenant,omitempty"`
}

const c16TenantSecret = "tenant-one-secret-bbbbbbbbbbbbbbbbbbbb"

func runC16Mixed(c c16Mixed) (sig, msg string) {
	nd, err := e4.StartNode(nil, func(cf *config.Config) {
		ac := auth.Config{HMACSecretKey: string(e4.Keys().HMAC)}
		cf.Upstream.Auth, cf.Proxy.Auth = ac, ac
		if c.Tenant {
			cf.Upstream.Tenants = []config.TenantConfig{{ID: "t1", Auth: auth.Config{HMACSecretKey: c16TenantSecret}}}
		}
	})
	if err != nil {
		evid.Fatal("start node: %v", err)
	}
	defer nd.Stop()
	desc := fmt.Sprintf("%+v", c)
	tok := func(kind string) string {
		d := e4.TokenDesc{Alg: "HS256", Key: "configured", Tamper: "none", Exp: "future", Nbf: "absent", Aud: "absent", Iss: "absent"}
		if c.Tenant {
			d.Secret = c16TenantSecret
		}
		switch kind {
		case "exp3":
			d.ExpIn = 3
		case "noexp":
			d.Exp = "absent"
		}
		return d.Mint()
	}
	var ups []*rawUpstream
	defer func() {
		for _, u := range ups {
			u.sess.Close()
		}
	}()
	stay := 0
	var lastExp time.Time
	for i, k := range c.Kinds {
		h := http.Header{}
		h.Set("Authorization", "Bearer "+tok(k))
		if c.Tenant {
			h.Set("x-piko-tenant-id", "t1")
		}
		u, err := dialRawHdr(nd.UpstreamAddr(), "e1", fmt.Sprintf("u%d-%s", i, k), h, nil)
		if err != nil {
			return "connect-failed", desc + ": " + err.Error()
		}
		ups = append(ups, u)
		if k == "exp3" {
			lastExp = time.Now().Add(3 * time.Second)
		} else {
			stay++
		}
	}
	if !e4.WaitFor(10*time.Second, func() bool { return nd.State().LocalNode().Endpoints["e1"] == len(ups) }) {
		return "not-registered-while-connected", fmt.Sprintf("%s: node has %v", desc, nd.State().LocalNode().Endpoints)
	}
	time.Sleep(time.Until(lastExp.Add(1500 * time.Millisecond)))
	for i, k := range c.Kinds {
		closed := false
		select {
		case <-ups[i].closed:
			closed = true
		default:
		}
		if k != "exp3" && closed {
			return "closed-although-token-has-not-expired", fmt.Sprintf("%s: upstream %d (token kind %s) was closed by the server when another upstream's token expired", desc, i, k)
		}
		if k == "exp3" && !closed {
			select {
			case <-ups[i].closed:
			case <-time.After(12 * time.Second):
				return "expired-token-connection-kept", fmt.Sprintf("%s: upstream %d still connected long after its token expired", desc, i)
			}
		}
	}
	if !e4.WaitFor(10*time.Second, func() bool {
		return nd.State().LocalNode().Endpoints["e1"] == stay && nd.Srv.VUpstreamServer().VOpenSessions() == stay
	}) {
		return "registration-differs-from-connected", fmt.Sprintf("%s: %d upstreams hold unexpired tokens, node has %v and %d sessions", desc, stay, nd.State().LocalNode().Endpoints, nd.Srv.VUpstreamServer().VOpenSessions())
	}
	if stay > 0 {
		// (the proxy port verifies with the default key, also for a tenant's endpoint)
		pt := e4.TokenDesc{Alg: "HS256", Key: "configured", Tamper: "none", Exp: "absent", Nbf: "absent", Aud: "absent", Iss: "absent"}
		r := e4.DoHTTP(nd.ProxyAddr(), e4.Addressing{Mode: "header", Endpoint: "e1", Token: "Bearer " + pt.Mint(), TokenHdr: "Authorization"})
		if r.Status != 200 {
			return "remaining-upstream-unreachable", fmt.Sprintf("%s: request with a token that never expires -> %s", desc, r)
		}
	}
	return "", ""
}

func c16MixedCases(full bool) []c16Mixed {
	kinds := []string{"exp3", "noexp", "far"}
	var out []c16Mixed
	var rec func(cur []string, n int)
	rec = func(cur []string, n int) {
		if len(cur) == n {
			e, o := 0, 0
			for _, k := range cur {
				if k == "exp3" {
					e++
				} else {
					o++
				}
			}
			if e > 0 && o > 0 {
				out = append(out, c16Mixed{Kinds: append([]string(nil), cur...)})
				if n == 2 || full {
					out = append(out, c16Mixed{Kinds: append([]string(nil), cur...), Tenant: true})
				}
			}
			return
		}
		for _, k := range kinds {
			rec(append(cur, k), n)
		}
	}
	rec(nil, 2)
	rec(nil, 3)
	if full {
		rec(nil, 4)
	}
	return out
}
