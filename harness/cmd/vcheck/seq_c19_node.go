package main

import (
	"time"

	"github.com/andydunstall/piko/server/cluster"
	"github.com/andydunstall/piko/server/config"
	"verifharness/internal/e4"
)

// rebalanceEnabledCase starts a real node with the given threshold, connects
// four upstreams, makes the view maximally imbalanced and reports how many
// connections the node closed by itself.
func rebalanceEnabledCase(threshold float64) (closed int, err error) {
	nd, err := e4.StartNode(nil, func(c *config.Config) {
		c.Upstream.Rebalance = config.RebalanceConfig{Threshold: threshold, ShedRate: 1, MinConns: 1}
	})
	if err != nil {
		return 0, err
	}
	defer nd.Stop()
	var ups []*rawUpstream
	for i := 0; i < 4; i++ {
		u, err := dialRaw(nd.UpstreamAddr(), "e1", "u", "")
		if err != nil {
			return 0, err
		}
		defer u.sess.Close()
		ups = append(ups, u)
	}
	e4.WaitFor(10*time.Second, func() bool { return nd.State().LocalNode().Endpoints["e1"] == 4 })
	nd.State().AddNode(&cluster.Node{ID: "idle-peer", Status: cluster.NodeStatusActive, ProxyAddr: "127.0.0.1:1", AdminAddr: "127.0.0.1:1"})
	count := func() int {
		n := 0
		for _, u := range ups {
			select {
			case <-u.closed:
				n++
			default:
			}
		}
		return n
	}
	if threshold == 0 {
		// the rebalance task does not exist: nothing may ever be closed
		time.Sleep(3500 * time.Millisecond)
		return count(), nil
	}
	e4.WaitFor(15*time.Second, func() bool { return count() > 0 })
	return count(), nil
}
