package main

import (
	"fmt"
	"math/big"
	"time"

	"github.com/andydunstall/piko/pkg/gossip"
	"verifharness/internal/evid"
)

// C11 with the real detector in the loop: the membership machine of the real
// clusterState driven by the real accrual failure detector on a harness
// clock. Every sequence over {heartbeat after a gap, liveness tick after a
// gap, expiry sweep} up to a depth; after every tick the flag must be exactly
// "silent for more than threshold x mean interval" (exact rational reference),
// so a node that is heard from again is restored whatever the length of the
// outage, and a node that is not flagged is never swept.

type clockFD struct {
	real *gossip.VAccrualFD
	now  time.Time
}

func (f *clockFD) Report(id string)                  { f.real.ReportWithTimestamp(id, f.now) }
func (f *clockFD) SuspicionLevel(id string) float64 { return f.real.SuspicionLevelAt(id, f.now) }
func (f *clockFD) Remove(id string)                  { f.real.Remove(id) }

type c11fdEvent struct {
	Kind string `json:"kind"` // hb | tick | sweep
	Gap  int64  `json:"gap_ms,omitempty"`
}

type flagWatcher struct {
	nopWatcher
	log []string
}

func (w *flagWatcher) OnUnreachable(id string) { w.log = append(w.log, "unreachable") }
func (w *flagWatcher) OnReachable(id string)   { w.log = append(w.log, "reachable") }
func (w *flagWatcher) OnExpired(id string)     { w.log = append(w.log, "expired") }

// prop selects the oracle: "C11" the flags against the exact reference,
// "C14" the fold of the watcher's notifications against the flags.
func runC11FD(prop string, seq []c11fdEvent) (sig, msg string, flagged, restored, swept int) {
	defer func() {
		if r := recover(); r != nil {
			sig, msg = "panic", fmt.Sprintf("%v: panic: %v", seq, r)
		}
	}()
	const bootstrap, window = 200, 50 // gossip.New: 2 x interval (100ms), 50 samples
	fd := &clockFD{real: gossip.VNewAccrualFD(bootstrap*time.Millisecond, window), now: time.Unix(2_000_000, 0)}
	w := &flagWatcher{}
	st := gossip.VNewClusterState("local", "10.0.0.1:7000", fd, sharedGossipMetrics, w)
	pl := gossip.VNewPacketListener(discardConn{}, st, fd, 1400, sharedGossipMetrics)
	hb := func() {
		b, err := gossip.VEncodeDelta(gossip.VDeltaHeader{NodeID: "nB", Addr: "10.0.0.2:7000"},
			gossip.VDelta{{ID: "nB", Addr: "10.0.0.2:7000", Entries: []gossip.Entry{{Key: "k", Value: "v", Version: 1}}}}, 1400)
		if err != nil {
			panic(err)
		}
		_ = pl.VHandlePacket(b)
	}
	ref := &fdRef{w: window, bootstrap: bootstrap}
	var clock int64
	hb() // nB introduces itself
	ref.arrive(clock)
	refFlag := false
	thr := big.NewRat(int64(gossip.VSuspicionThreshold), 1)
	foldOK := func(i int) (string, string) {
		if prop != "C14" {
			return "", ""
		}
		// fold of the membership notifications about nB
		state := "reachable"
		for _, l := range w.log {
			switch l {
			case "unreachable":
				state = "unreachable"
			case "reachable":
				state = "reachable"
			case "expired":
				state = "gone"
			}
		}
		n, ok := st.Node("nB")
		view := "gone"
		if ok && n.Unreachable {
			view = "unreachable"
		} else if ok {
			view = "reachable"
		}
		if view != state {
			return "notification-fold-differs-from-view", fmt.Sprintf("%v, after event %d: the view shows nB as %s, folding the notifications %v gives %s", seq, i, view, w.log, state)
		}
		return "", ""
	}
	for i, e := range seq {
		desc := func() string { return fmt.Sprintf("%v, at event %d", seq, i) }
		if i > 0 {
			if s, m := foldOK(i - 1); s != "" {
				return s, m, flagged, restored, swept
			}
		}
		switch e.Kind {
		case "hb":
			clock += e.Gap
			fd.now = fd.now.Add(time.Duration(e.Gap) * time.Millisecond)
			hb()
			ref.arrive(clock)
		case "tick":
			clock += e.Gap
			fd.now = fd.now.Add(time.Duration(e.Gap) * time.Millisecond)
			st.UpdateLiveness(float64(gossip.VSuspicionThreshold))
			phi := ref.phi(clock)
			cmp := phi.Cmp(thr)
			n, ok := st.Node("nB")
			if !ok {
				return "node-lost", desc() + ": nB vanished from the view without an expiry sweep", flagged, restored, swept
			}
			if cmp == 0 {
				refFlag = n.Unreachable // exactly on the threshold: either is fine
				break
			}
			want := cmp > 0
			if prop != "C11" {
				if want && !refFlag {
					flagged++
				}
				if !want && refFlag {
					restored++
				}
				refFlag = n.Unreachable
				break
			}
			if n.Unreachable != want {
				pf, _ := phi.Float64()
				if want {
					return "silent-node-not-flagged", fmt.Sprintf("%s: silence/mean = %.3f > %d but nB is not flagged unreachable", desc(), pf, gossip.VSuspicionThreshold), flagged, restored, swept
				}
				return "heard-from-but-still-unreachable", fmt.Sprintf("%s: silence/mean = %.3f <= %d (nB was last heard %dms ago) but nB is still flagged unreachable", desc(), pf, gossip.VSuspicionThreshold, clock-ref.last), flagged, restored, swept
			}
			if want && !refFlag {
				flagged++
			}
			if !want && refFlag {
				restored++
			}
			if !want && !n.Expiry.IsZero() {
				return "reachable-node-keeps-expiry", desc() + ": nB is reachable again but still carries an expiry", flagged, restored, swept
			}
			refFlag = want
		case "sweep":
			// a sweep long after any expiry that is armed
			st.RemoveExpiredAt(time.Now().Add(3 * gossip.VNodeExpiry))
			_, ok := st.Node("nB")
			if prop != "C11" {
				if !ok {
					swept++
					if prop == "C02" && !refFlag {
						return "view-of-live-owner-lost", desc() + ": nB is alive, heard from and not flagged, yet the sweep threw its whole state away", flagged, restored, swept
					}
					s, m := foldOK(i)
					return s, m, flagged, restored, swept
				}
				break
			}
			if ok == refFlag {
				if refFlag {
					return "flagged-node-not-swept", desc() + ": nB is flagged and its expiry has passed, the sweep kept it", flagged, restored, swept
				}
				return "reachable-node-swept", desc() + ": nB is not flagged (it is alive and heard from) and the sweep forgot it", flagged, restored, swept
			}
			if !ok {
				swept++
				return "", "", flagged, restored, swept // the node is gone: end of this history
			}
		}
	}
	if s, m := foldOK(len(seq) - 1); s != "" {
		return s, m, flagged, restored, swept
	}
	return "", "", flagged, restored, swept
}

func c11DetectorLoop(run *evid.Run, prop string) {
	gaps := []int64{100, 1000, 15000, 45000}
	depth := 5
	if run.Thorough() {
		gaps = []int64{100, 1000, 5000, 15000, 45000, 100000}
		depth = 6
	}
	var alphabet []c11fdEvent
	for _, g := range gaps {
		alphabet = append(alphabet, c11fdEvent{"hb", g})
	}
	for _, g := range append([]int64{0}, gaps[1:]...) {
		alphabet = append(alphabet, c11fdEvent{"tick", g})
	}
	alphabet = append(alphabet, c11fdEvent{Kind: "sweep"})
	seqs, nodes, flagged, restored, swept := 0, 0, 0, 0, 0
	reported := map[string]bool{}
	var rec func(prefix []c11fdEvent)
	rec = func(prefix []c11fdEvent) {
		nodes++
		if len(prefix) == depth {
			seqs++
			sig, msg, f, r, s := runC11FD(prop, prefix)
			flagged += f
			restored += r
			swept += s
			if sig != "" && !reported[sig] {
				reported[sig] = true
				run.Violation(prop, sig, msg, map[string]any{"engine": "E3-C11-fd", "oracle": prop, "sequence": append([]c11fdEvent(nil), prefix...)})
			}
			return
		}
		for _, e := range alphabet {
			rec(append(prefix, e))
		}
	}
	rec(nil)
	if run.Violations() == 0 && (flagged == 0 || restored == 0 || swept == 0) {
		evid.Fatal("vacuous: detector loop flagged=%d restored=%d swept=%d", flagged, restored, swept)
	}
	run.Set("detector_loop", map[string]any{"alphabet": alphabet, "depth": depth, "sequences": seqs, "histories": nodes, "flagged": flagged, "restored_after_outage": restored, "swept": swept,
		"explanation": "real clusterState + real accrual detector on a harness clock; every event sequence of the stated depth; after every liveness tick the unreachable flag equals (silence > threshold x mean interval) computed exactly, reachable nodes carry no expiry and are never swept"})
	fmt.Printf("  "+prop+" detector loop: sequences=%d flagged=%d restored=%d swept=%d\n", seqs, flagged, restored, swept)
}

func init() {
	replayers["E3-C11-fd"] = func(path string) int {
		var doc struct {
			Replay struct {
				Oracle   string       `json:"oracle"`
				Sequence []c11fdEvent `json:"sequence"`
			} `json:"replay"`
		}
		readJSON(path, &doc)
		if doc.Replay.Oracle == "" {
			doc.Replay.Oracle = "C11"
		}
		s1, m1, _, _, _ := runC11FD(doc.Replay.Oracle, doc.Replay.Sequence)
		s2, m2, _, _, _ := runC11FD(doc.Replay.Oracle, doc.Replay.Sequence)
		fmt.Println(s1, m1)
		if s1 != s2 || m1 != m2 {
			evid.Fatal("replay is not deterministic")
		}
		return 0
	}
}
