package main

import (
	"bytes"
	"context"
	"fmt"
	"io"
	"net"
	"os"
	"os/exec"
	"strings"
	"sync"
	"sync/atomic"
	"syscall"
	"time"

	"github.com/andydunstall/piko/pkg/auth"
	"github.com/andydunstall/piko/server/cluster"
	"github.com/andydunstall/piko/server/config"
	"verifharness/internal/e4"
	"verifharness/internal/evid"
	"verifharness/internal/gw"
)

// C18: losing a node. Three nodes: two in-process survivors and one `piko
// server` subprocess built from the current tree, which is the node that is
// lost (SIGTERM = graceful, SIGKILL = crash). Listeners reach the cluster
// through a harness TCP load balancer that prefers the node that will be
// lost, so they are attached to it when it goes and must reconnect to a
// survivor.

type c18Case struct {
	LostIsSeed bool   `json:"lost_node_is_join_seed"`
	Phase      string `json:"phase"` // idle | upstreams | in-flight | double-signal
	Mode       string `json:"mode"`  // graceful | kill
	// Reset: the listeners' connections to the lost node end with a TCP reset
	// (what a crashed host or a load balancer with a dead target produces)
	// instead of an orderly close
	Reset bool `json:"connections_reset,omitempty"`
	// Rebalance: the lost node runs with connection rebalancing enabled
	Rebalance bool `json:"rebalance_enabled,omitempty"`
	// LBLag: for a moment after the loss the balancer still accepts connections
	// for the dead node and closes them (health-check lag) before it fails over
	LBLag bool `json:"balancer_lag,omitempty"`
	// Shared: endpoint e1 has two listeners on the node that is lost
	Shared bool `json:"two_listeners_of_one_endpoint,omitempty"`
}

func freePorts(n int) []string {
	var out []string
	var lns []net.Listener
	for i := 0; i < n; i++ {
		l, err := net.Listen("tcp", "127.0.0.1:0")
		if err != nil {
			evid.Fatal("free port: %v", err)
		}
		lns = append(lns, l)
		out = append(out, l.Addr().String())
	}
	for _, l := range lns {
		l.Close()
	}
	return out
}

type procNode struct {
	ID                            string
	Proxy, Upstream, Admin, Gossip string
	cmd                           *exec.Cmd
	out                           bytes.Buffer
	exited                        chan struct{}
}

// startProc starts the subprocess node; the free ports are picked before the
// process binds them, so a bind can lose a race with another socket: retried
// with fresh ports.
func startProc(id string, join []string, grace time.Duration, extra ...string) *procNode {
	var last string
	for attempt := 0; attempt < 6; attempt++ {
		n, out := tryStartProc(id, join, grace, extra...)
		if n != nil {
			return n
		}
		last = out
		if !strings.Contains(out, "address already in use") {
			break
		}
	}
	evid.Fatal("piko server subprocess did not become ready: %s", last)
	return nil
}

func tryStartProc(id string, join []string, grace time.Duration, extra ...string) (*procNode, string) {
	bin := os.Getenv("VERIF_PIKO_BIN")
	if bin == "" {
		evid.Fatal("VERIF_PIKO_BIN not set (the check script builds the piko binary)")
	}
	p := freePorts(4)
	n := &procNode{ID: id, Proxy: p[0], Upstream: p[1], Admin: p[2], Gossip: p[3], exited: make(chan struct{})}
	args := []string{"server",
		"--cluster.node-id", id,
		"--proxy.bind-addr", n.Proxy, "--upstream.bind-addr", n.Upstream, "--admin.bind-addr", n.Admin,
		"--cluster.gossip.bind-addr", n.Gossip, "--cluster.gossip.interval", "40ms",
		"--cluster.abort-if-join-fails=false", "--cluster.join-timeout", "5s",
		"--grace-period", grace.String(), "--log.level", "error", "--proxy.access-log.disable",
		// upstream connections are authenticated with (far from expiry) tokens
		"--upstream.auth.hmac-secret-key", string(e4.Keys().HMAC),
	}
	for _, j := range join {
		args = append(args, "--cluster.join", j)
	}
	args = append(args, extra...)
	n.cmd = exec.Command(bin, args...)
	n.cmd.Stdout = &n.out
	n.cmd.Stderr = &n.out
	if err := n.cmd.Start(); err != nil {
		evid.Fatal("start piko server: %v", err)
	}
	go func() { _ = n.cmd.Wait(); close(n.exited) }()
	// wait for the admin port (or for the process to give up)
	ok := e4.WaitFor(20*time.Second, func() bool {
		select {
		case <-n.exited:
			return true
		default:
		}
		resp, err := e4.Client().Get("http://" + n.Admin + "/ready")
		if err != nil {
			return false
		}
		resp.Body.Close()
		return resp.StatusCode == 200
	})
	select {
	case <-n.exited:
		ok = false
	default:
	}
	if !ok {
		n.kill()
		return nil, n.out.String()
	}
	return n, ""
}

func (n *procNode) kill() {
	if n.cmd.Process != nil {
		_ = n.cmd.Process.Kill()
	}
	select {
	case <-n.exited:
	case <-time.After(5 * time.Second):
	}
}

// lb is a TCP load balancer with a deterministic target order.
type lb struct {
	ln      net.Listener
	targets []string
	mu      sync.Mutex
	conns   atomic.Int64
	reset   atomic.Bool
	// lag: after the first target stops answering the balancer keeps sending
	// it new connections for this long, each of which it closes at once
	lag       time.Duration
	firstFail time.Time
}

func newLB(targets []string) *lb {
	ln, err := net.Listen("tcp", "127.0.0.1:0")
	if err != nil {
		evid.Fatal("lb: %v", err)
	}
	l := &lb{ln: ln, targets: targets}
	go func() {
		for {
			c, err := ln.Accept()
			if err != nil {
				return
			}
			go l.handle(c)
		}
	}()
	return l
}

func (l *lb) handle(c net.Conn) {
	defer c.Close()
	for ti, t := range l.targets {
		u, err := net.DialTimeout("tcp", t, 2*time.Second)
		if err != nil {
			if ti == 0 && l.lag > 0 {
				l.mu.Lock()
				if l.firstFail.IsZero() {
					l.firstFail = time.Now()
				}
				lagging := time.Since(l.firstFail) < l.lag
				l.mu.Unlock()
				if lagging {
					return // accepted, then closed: the health check has not caught up yet
				}
			}
			continue
		}
		l.conns.Add(1)
		done := make(chan struct{}, 2)
		go func() { _, _ = io.Copy(u, c); u.Close(); done <- struct{}{} }()
		go func() {
			_, _ = io.Copy(c, u)
			if l.reset.Load() {
				// the balancer tells the client about a lost target with a reset,
				// not an orderly close
				if tc, ok := c.(*net.TCPConn); ok {
					_ = tc.SetLinger(0)
				}
			}
			c.Close()
			done <- struct{}{}
		}()
		<-done
		<-done
		return
	}
}

func runC18(c c18Case) (sig, msg string) {
	desc := fmt.Sprintf("%+v", c)
	grace := 4 * time.Second
	var lost *procNode
	var survivors []*e4.FullNode
	stopAll := func() {
		if lost != nil {
			lost.kill()
		}
		for _, s := range survivors {
			s.Stop()
		}
	}
	defer stopAll()
	var extra []string
	if c.Rebalance {
		extra = []string{"--upstream.rebalance.threshold", "0.5"}
	}
	mut := func(cf *config.Config) {
		cf.GracePeriod = 3 * time.Second
		cf.Upstream.Auth = auth.Config{HMACSecretKey: string(e4.Keys().HMAC)}
	}
	if c.LostIsSeed {
		lost = startProc("lostnode", nil, grace, extra...)
		for i := 0; i < 2; i++ {
			s, err := e4.StartNode([]string{lost.Gossip}, mut)
			if err != nil {
				return "start-failed", err.Error()
			}
			survivors = append(survivors, s)
		}
	} else {
		s0, err := e4.StartNode(nil, mut)
		if err != nil {
			return "start-failed", err.Error()
		}
		survivors = append(survivors, s0)
		lost = startProc("lostnode", []string{s0.GossipAddr()}, grace, extra...)
		s1, err := e4.StartNode([]string{s0.GossipAddr()}, mut)
		if err != nil {
			return "start-failed", err.Error()
		}
		survivors = append(survivors, s1)
	}
	// everybody knows everybody
	if !e4.WaitFor(30*time.Second, func() bool {
		for _, s := range survivors {
			n := 0
			for _, nd := range s.State().Nodes() {
				if nd.Status == cluster.NodeStatusActive {
					n++
				}
			}
			if n != 3 {
				return false
			}
		}
		return true
	}) {
		return "cluster-did-not-form", desc + ": " + e4.ViewOf(survivors[0])
	}
	balancer := newLB([]string{lost.Upstream, survivors[0].UpstreamAddr(), survivors[1].UpstreamAddr()})
	defer balancer.ln.Close()
	balancer.reset.Store(c.Reset)
	if c.LBLag {
		balancer.lag = 500 * time.Millisecond
	}
	var lns []*e4.StampListener
	defer func() {
		for _, l := range lns {
			_ = l.Ln.Shutdown()
		}
	}()
	eps := []string{"e1", "e2"}
	if c.Phase != "idle" {
		for _, ep := range eps {
			l, err := e4.Listen(context.Background(), balancer.ln.Addr().String(), ep, "l-"+ep, e4.ListenOpts{
				Token: c16Token(0), MinBackoff: 20 * time.Millisecond, MaxBackoff: 200 * time.Millisecond})
			if err != nil {
				return "listen-failed", desc + ": " + err.Error()
			}
			lns = append(lns, l)
		}
		wantE1 := 1
		if c.Shared {
			l, err := e4.Listen(context.Background(), balancer.ln.Addr().String(), "e1", "l-e1", e4.ListenOpts{
				Token: c16Token(0), MinBackoff: 20 * time.Millisecond, MaxBackoff: 200 * time.Millisecond})
			if err != nil {
				return "listen-failed", desc + ": " + err.Error()
			}
			lns = append(lns, l)
			wantE1 = 2
		}
		// attached to the node that will be lost and visible from the survivors
		if !e4.WaitFor(30*time.Second, func() bool {
			for _, s := range survivors {
				nd, ok := s.State().Node("lostnode")
				if !ok || nd.Endpoints["e1"] != wantE1 || nd.Endpoints["e2"] != 1 {
					return false
				}
			}
			return true
		}) {
			return "cluster-did-not-settle", desc + ": " + e4.ViewOf(survivors[0])
		}
		for _, s := range survivors {
			for _, ep := range eps {
				if r := e4.DoHTTP(s.ProxyAddr(), e4.Addressing{Mode: "header", Endpoint: ep}); r.Status != 200 || r.Endpoint != ep {
					return "not-served-before-loss", fmt.Sprintf("%s: %s via %s -> %s", desc, ep, s.ID, r)
				}
			}
		}
	}
	// requests in flight while the node is lost
	var inflight sync.WaitGroup
	var wrong atomic.Value
	if c.Phase == "in-flight" {
		for q := 0; q < 10; q++ {
			inflight.Add(1)
			go func(q int) {
				defer inflight.Done()
				ep := eps[q%2]
				r := e4.DoHTTP(survivors[q%2].ProxyAddr(), e4.Addressing{Mode: "header", Endpoint: ep})
				if (r.Status == 200) && r.Endpoint != ep {
					wrong.Store(fmt.Sprintf("request for %s answered by %s", ep, r))
				}
			}(q)
		}
	}
	// lose the node
	t0 := time.Now()
	switch c.Mode {
	case "graceful":
		_ = lost.cmd.Process.Signal(syscall.SIGTERM)
		if c.Phase == "double-signal" {
			time.Sleep(30 * time.Millisecond)
			_ = lost.cmd.Process.Signal(syscall.SIGTERM)
		}
		select {
		case <-lost.exited:
		case <-time.After(grace + 10*time.Second):
			return "shutdown-exceeded-grace-period", fmt.Sprintf("%s: the node was still running %s after SIGTERM (grace period %s)", desc, time.Since(t0).Round(time.Millisecond), grace)
		}
	case "kill":
		_ = lost.cmd.Process.Kill()
		<-lost.exited
	}
	done := make(chan struct{})
	go func() { inflight.Wait(); close(done) }()
	select {
	case <-done:
	case <-time.After(60 * time.Second):
		return "in-flight-request-hung", desc + ": a request in flight during the loss never returned"
	}
	if w := wrong.Load(); w != nil {
		return "delivered-to-wrong-endpoint", desc + ": " + w.(string)
	}
	// survivors stop routing to the lost node
	wantStatus := cluster.NodeStatusLeft
	if c.Mode == "kill" {
		wantStatus = cluster.NodeStatusUnreachable
	}
	if !e4.WaitFor(60*time.Second, func() bool {
		for _, s := range survivors {
			nd, ok := s.State().Node("lostnode")
			if ok && nd.Status == cluster.NodeStatusActive {
				return false
			}
		}
		return true
	}) {
		return "lost-node-still-active", fmt.Sprintf("%s: 60s after the loss a survivor still lists the node as active: %s | %s", desc, e4.ViewOf(survivors[0]), e4.ViewOf(survivors[1]))
	}
	if c.Mode == "graceful" && c.Shared {
		// "stops advertising its upstreams": every connection of the stopped node
		// is closed, so whatever the survivors make of its status they must end
		// up listing no endpoint for it (it withdrew them while it was still
		// gossiping; nothing can re-add them)
		if !e4.WaitFor(60*time.Second, func() bool {
			for _, s := range survivors {
				if nd, ok := s.State().Node("lostnode"); ok && len(nd.Endpoints) != 0 {
					return false
				}
			}
			return true
		}) {
			return "stopped-node-still-advertising", fmt.Sprintf("%s: 60s after the node shut down gracefully (all its upstream connections closed) the survivors still list endpoints for it: %s | %s", desc, e4.ViewOf(survivors[0]), e4.ViewOf(survivors[1]))
		}
	}
	if c.Mode == "graceful" {
		for _, s := range survivors {
			if nd, ok := s.State().Node("lostnode"); ok && nd.Status != wantStatus {
				return "departure-not-announced", fmt.Sprintf("%s: after a graceful shutdown %s lists the node as %s, not left", desc, s.ID, nd.Status)
			}
			// it stopped advertising its upstreams before it announced its departure
			if nd, ok := s.State().Node("lostnode"); ok && len(nd.Endpoints) != 0 {
				return "left-node-still-advertising", fmt.Sprintf("%s: the node shut down gracefully but %s still lists it with endpoints %v", desc, s.ID, nd.Endpoints)
			}
		}
	}
	if c.Phase == "idle" {
		for _, s := range survivors {
			if r := e4.DoHTTP(s.ProxyAddr(), e4.Addressing{Mode: "header", Endpoint: "e1"}); r.Status != 502 {
				return "unexpected-status", fmt.Sprintf("%s: no upstream anywhere but %s -> %s", desc, s.ID, r)
			}
		}
		return "", ""
	}
	// listeners reconnect to a survivor and every survivor serves both endpoints again
	var last string
	if !e4.WaitFor(60*time.Second, func() bool {
		for _, s := range survivors {
			for _, ep := range eps {
				r := e4.DoHTTP(s.ProxyAddr(), e4.Addressing{Mode: "header", Endpoint: ep})
				if r.Status == 200 && r.Endpoint != ep {
					wrong.Store(fmt.Sprintf("request for %s answered by %s", ep, r))
					return true
				}
				if r.Status != 200 {
					last = fmt.Sprintf("%s via %s -> %s", ep, s.ID, r)
					return false
				}
			}
		}
		return true
	}) {
		var lerr []string
		for _, l := range lns {
			lerr = append(lerr, fmt.Sprintf("%s: accept error %q", l.Name, l.LastErr()))
		}
		return "traffic-did-not-recover", fmt.Sprintf("%s: 60s after the loss: %s; listeners: %v; views: %s | %s", desc, last, lerr, e4.ViewOf(survivors[0]), e4.ViewOf(survivors[1]))
	}
	if w := wrong.Load(); w != nil {
		return "delivered-to-wrong-endpoint", desc + ": " + w.(string)
	}
	return "", ""
}

func init() {
	register("C18", func(args []string) int {
		run := evid.NewRun("C18", "fault_enumeration")
		var cases []c18Case
		for _, seed := range []bool{false, true} {
			for _, ph := range []string{"idle", "upstreams", "in-flight", "double-signal"} {
				for _, m := range []string{"graceful", "kill"} {
					if ph == "double-signal" && m == "kill" {
						continue
					}
					if !run.Thorough() && seed && (ph == "idle" || ph == "double-signal") {
						continue
					}
					cases = append(cases, c18Case{LostIsSeed: seed, Phase: ph, Mode: m})
					if m == "kill" && ph != "idle" {
						cases = append(cases, c18Case{LostIsSeed: seed, Phase: ph, Mode: m, Reset: true})
					}
					if ph == "upstreams" {
						cases = append(cases, c18Case{LostIsSeed: seed, Phase: ph, Mode: m, LBLag: true})
					}
					if (ph == "upstreams" || ph == "in-flight") && !seed {
						cases = append(cases, c18Case{LostIsSeed: seed, Phase: ph, Mode: m, Shared: true})
					}
					if m == "graceful" && (ph == "upstreams" || ph == "idle") && !seed {
						cases = append(cases, c18Case{LostIsSeed: seed, Phase: ph, Mode: m, Rebalance: true})
					}
				}
			}
		}
		var mu sync.Mutex
		evals := 0
		ch := make(chan c18Case, 16)
		var wg sync.WaitGroup
		for k := 0; k < 5; k++ {
			wg.Add(1)
			go func() {
				defer wg.Done()
				for c := range ch {
					sig, msg := runC18(c)
					if sig != "" {
						// liveness deadline misses are re-run before they count
						confirmed := 0
						for r := 0; r < 2; r++ {
							if s2, _ := runC18(c); s2 == sig {
								confirmed++
							}
						}
						if confirmed == 0 {
							sig = ""
						}
					}
					mu.Lock()
					evals++
					run.Sample(c)
					mu.Unlock()
					if sig != "" {
						run.Violation("C18", sig, msg, map[string]any{"engine": "E4-C18", "case": c})
					}
				}
			}()
		}
		for _, c := range cases {
			ch <- c
		}
		close(ch)
		wg.Wait()
		// "stops advertising its upstreams" before it announces its departure, also
		// when there are many upstream connections to deregister (sys_c18_many.go)
		for _, k := range []int{1, 60} {
			sig, msg := runC18ManyUpstreams(k)
			if sig != "" {
				if s2, _ := runC18ManyUpstreams(k); s2 != sig {
					sig = ""
				}
			}
			evals++
			if sig != "" {
				run.Violation("C18", sig, msg, map[string]any{"engine": "E4-C18", "many_upstreams": k})
			}
		}
		// "announces its departure": the real Gossip.Leave for every subset of
		// peers that died a moment ago (gossip-level, in memory)
		lc, probs := gw.CheckLeaveAnnounced(8)
		for i, p := range probs {
			if i < 3 {
				run.Violation("C18", "departure-not-announced", p, map[string]any{"engine": "E1-leave", "problem": p})
			}
		}
		run.Set("leave_announcement_cases", lc)
		distinctCases := evals + lc/8 // each unreachable-set is tried 8 times (random order inside Leave)
		evals += lc
		run.Set("evaluations", evals)
		run.Set("distinct_nontrivial", distinctCases)
		run.Set("rule", "3-node cluster (two in-process survivors + one `piko server` subprocess built from the current tree) behind a TCP load balancer that attaches listeners to the node that will be lost; lost node {join seed, later joiner} x phase {idle, upstreams connected, 10 requests in flight, second signal mid-shutdown} x mode {SIGTERM, SIGKILL}, plus (upstreams connected, in flight) x mode with two listeners of one endpoint on the lost node; each case is distinct; both survivors are used as entry nodes")
		run.Set("exhaustive", run.Thorough())
		run.Assume("the kill is delivered at phase boundaries, not at every instruction; schedules are free-running; liveness claims poll up to 60s and a miss is re-run twice before it is reported")
		fmt.Printf("  C18: cases=%d\n", evals)
		return run.Finish()
	})
	replayers["E4-C18"] = func(path string) int {
		var doc struct {
			Replay struct {
				Case c18Case `json:"case"`
				Many int     `json:"many_upstreams"`
			} `json:"replay"`
		}
		readJSON(path, &doc)
		if doc.Replay.Many > 0 {
			fmt.Println(runC18ManyUpstreams(doc.Replay.Many))
			return 0
		}
		fmt.Println(runC18(doc.Replay.Case))
		return 0
	}
}
