package main

import (
	"fmt"
	"net/http"
	"sync"
	"time"

	"github.com/gorilla/websocket"

	"github.com/andydunstall/piko/pkg/auth"
	"github.com/andydunstall/piko/server/config"
	"verifharness/internal/e4"
	"verifharness/internal/evid"
)

// A token that was accepted once is verified again every time it is
// presented: after its expiry it is refused, whatever was decided earlier
// (with and without tenants, with and without disconnect-on-expiry).
func c09Replay(run *evid.Run, mu *sync.Mutex, evals, nontrivial *int) {
	secret := map[string]string{"default": string(e4.Keys().HMAC), "t1": "tenant-one-secret-aaaaaaaaaaaaaaaaaaaa"}
	type cfg struct {
		Tenants bool
		Disable bool
	}
	var wg sync.WaitGroup
	for _, c := range []cfg{{false, false}, {false, true}, {true, false}, {true, true}} {
		wg.Add(1)
		go func(c cfg) {
			defer wg.Done()
			nd, err := e4.StartNode(nil, func(cf *config.Config) {
				cf.Upstream.Auth = auth.Config{HMACSecretKey: secret["default"], DisableDisconnectOnExpiry: c.Disable}
				cf.Proxy.Auth = cf.Upstream.Auth
				if c.Tenants {
					cf.Upstream.Tenants = []config.TenantConfig{{ID: "t1", Auth: auth.Config{HMACSecretKey: secret["t1"], DisableDisconnectOnExpiry: c.Disable}}}
				}
			})
			if err != nil {
				evid.Fatal("start replay node: %v", err)
			}
			defer nd.Stop()
			signer, tenant := "default", ""
			if c.Tenants {
				signer, tenant = "t1", "t1"
			}
			d := e4.TokenDesc{Alg: "HS256", Key: "configured", Tamper: "none", Exp: "future", Nbf: "absent", Aud: "absent", Iss: "absent", Secret: secret[signer], ExpIn: 2}
			tok := d.Mint()
			expires := time.Now().Add(2 * time.Second)
			present := func(port string) (int, error) {
				h := http.Header{}
				h.Set("Authorization", "Bearer "+tok)
				if tenant != "" && port == "upstream" {
					h.Set("x-piko-tenant-id", tenant)
				}
				if port == "upstream" {
					dl := &websocket.Dialer{HandshakeTimeout: 20 * time.Second}
					ws, resp, err := dl.Dial("ws://"+nd.UpstreamAddr()+"/piko/v1/upstream/e9", h)
					if err == nil {
						ws.Close()
						return 101, nil
					}
					if resp == nil {
						return 0, err
					}
					return resp.StatusCode, nil
				}
				req, _ := http.NewRequest("GET", "http://"+nd.ProxyAddr()+"/x", nil)
				req.Header = h
				req.Header.Set("x-piko-endpoint", "nobody")
				resp, err := e4.Client().Do(req)
				if err != nil {
					return 0, err
				}
				resp.Body.Close()
				return resp.StatusCode, nil
			}
			ports := []string{"upstream"}
			if !c.Tenants {
				ports = append(ports, "proxy") // the proxy port uses the default key
			}
			for _, port := range ports {
				st, err := present(port)
				if err != nil || st == 401 {
					// a precondition of this case, not its subject; fatal only when
					// nothing else has been reported (a broken verifier refuses
					// fresh tokens too, and that is reported by the main matrix)
					if run.Violations() == 0 {
						evid.Fatal("replay %+v: the fresh token was refused on the %s port (status %d, %v)", c, port, st, err)
					}
					return
				}
			}
			time.Sleep(time.Until(expires.Add(1200 * time.Millisecond)))
			for _, port := range ports {
				st, err := present(port)
				mu.Lock()
				*evals++
				*nontrivial++
				mu.Unlock()
				desc := fmt.Sprintf("tenants=%v disable_disconnect_on_expiry=%v: a token accepted on the %s port while fresh, presented again 1.2s after its expiry -> status %d err %v", c.Tenants, c.Disable, port, st, err)
				if err != nil {
					run.Violation("C09", "request-failed", desc, map[string]any{"engine": "E4-C09", "replay_case": desc})
				} else if st != 401 {
					run.Violation("C09", "expired-token-accepted-on-replay", desc, map[string]any{"engine": "E4-C09", "replay_case": desc})
				}
			}
		}(c)
	}
	wg.Wait()
}
