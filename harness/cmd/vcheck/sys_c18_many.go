package main

import (
	"fmt"
	"time"

	"github.com/andydunstall/piko/server/cluster"
	"verifharness/internal/e4"
)

// runC18ManyUpstreams: "a server node shutting down gracefully stops
// advertising its upstreams" with many upstream connections: the departure
// must not be announced while some of them are still registered. Two
// in-process nodes; k upstream connections on distinct endpoints on the node
// that shuts down; afterwards the survivor lists it as left with no endpoints.
func runC18ManyUpstreams(k int) (sig, msg string) {
	nodes, err := e4.StartCluster(2, nil)
	if err != nil {
		return "start-failed", err.Error()
	}
	defer nodes[1].Stop()
	var ups []*rawUpstream
	defer func() {
		for _, u := range ups {
			u.sess.Close()
		}
	}()
	for i := 0; i < k; i++ {
		u, err := dialRaw(nodes[0].UpstreamAddr(), fmt.Sprintf("ep-%03d", i), fmt.Sprintf("u%d", i), "")
		if err != nil {
			nodes[0].Stop()
			return "connect-failed", err.Error()
		}
		ups = append(ups, u)
	}
	if !e4.WaitFor(30*time.Second, func() bool {
		n, ok := nodes[1].State().Node(nodes[0].ID)
		return ok && len(n.Endpoints) == k
	}) {
		nodes[0].Stop()
		return "cluster-did-not-settle", fmt.Sprintf("%d upstreams connected, the other node sees %s", k, e4.ViewOf(nodes[1]))
	}
	nodes[0].Stop()
	if !e4.WaitFor(30*time.Second, func() bool {
		n, ok := nodes[1].State().Node(nodes[0].ID)
		return ok && n.Status == cluster.NodeStatusLeft
	}) {
		return "departure-not-announced", fmt.Sprintf("30s after a graceful shutdown with %d upstreams the survivor sees %s", k, e4.ViewOf(nodes[1]))
	}
	// the leave carries the node's whole state: what the survivor has now is final
	time.Sleep(300 * time.Millisecond)
	n, _ := nodes[1].State().Node(nodes[0].ID)
	if n != nil && len(n.Endpoints) != 0 {
		return "left-node-still-advertising", fmt.Sprintf("the node shut down gracefully with %d upstream connections; the survivor lists it as left with %d endpoints still advertised (e.g. %v)", k, len(n.Endpoints), firstKeys(n.Endpoints, 3))
	}
	return "", ""
}

func firstKeys(m map[string]int, n int) []string {
	var out []string
	for k := range m {
		if len(out) < n {
			out = append(out, k)
		}
	}
	return out
}

