package main

import (
	"bytes"
	"fmt"
	"os"
	"os/exec"
	"strconv"
	"strings"
	"time"

	"verifharness/internal/evid"
)

// C13, hostile streams whose size is not bounded by a datagram: a value nested
// N levels deep under a key the receiver does not know. The decoder skips
// such a value recursively; a crash here is a fatal stack overflow that no
// recover() can catch, so every case runs in its own worker process.

// nestedStream builds: kind, version, map{ "x": [[[...nil...]]] } with depth levels.
func nestedStream(kind byte, depth int, shape string) []byte {
	b := append(make([]byte, 0, 2*depth+8), kind, 0x00, 0x81, 0xa1, 'x')
	for i := 0; i < depth; i++ {
		if shape == "map" {
			b = append(b, 0x81, 0xc0) // {nil: <next level>}
		} else {
			b = append(b, 0x91) // [<next level>]
		}
	}
	return append(b, 0xc0)
}

func c13NestedWorker(args []string) int {
	if len(args) < 3 {
		return 2
	}
	kind, _ := strconv.Atoi(args[0])
	depth, _ := strconv.Atoi(args[1])
	h := newHostileNode()
	if msg := h.feed(true, nestedStream(byte(kind), depth, args[2])); msg != "" {
		fmt.Println("FAIL " + msg)
		return 1
	}
	// the node still answers an ordinary stream afterwards
	fmt.Println("ok")
	return 0
}

type c13NestedCase struct {
	Kind  string `json:"stream"`
	Shape string `json:"nesting"`
	Depth int    `json:"depth"`
}

func c13RunNested(c c13NestedCase) (sig, msg string) {
	self, _ := os.Executable()
	kind := "3"
	if c.Kind == "leave" {
		kind = "4"
	}
	cmd := exec.Command("sh", "-c", `ulimit -v 12582912; exec "$0" C13-nested-worker "$1" "$2" "$3"`, self, kind, strconv.Itoa(c.Depth), c.Shape)
	var out, errb bytes.Buffer
	cmd.Stdout, cmd.Stderr = &out, &errb
	if err := cmd.Start(); err != nil {
		evid.Fatal("start nested worker: %v", err)
	}
	done := make(chan error, 1)
	go func() { done <- cmd.Wait() }()
	select {
	case err := <-done:
		if err == nil && strings.Contains(out.String(), "ok") {
			return "", ""
		}
		e := errb.String()
		if strings.Contains(e, "stack overflow") || strings.Contains(e, "goroutine stack exceeds") {
			return "stream-crashes-node:deeply-nested-skipped-value", fmt.Sprintf("a %s stream of %d bytes carrying a value nested %d %ss deep under an unknown header key kills the process: fatal error: stack overflow (not recoverable)", c.Kind, c.Depth+6, c.Depth, c.Shape)
		}
		if strings.HasPrefix(out.String(), "FAIL ") {
			return "nested-stream-handled-wrongly", strings.TrimSpace(out.String())
		}
		tail := e
		if len(tail) > 600 {
			tail = tail[:600]
		}
		return "stream-crashes-node:other", fmt.Sprintf("worker for %+v died (%v): %s", c, err, tail)
	case <-time.After(5 * time.Minute):
		_ = cmd.Process.Kill()
		<-done
		// not judged: the machine may be starved; reported as not completed
		return "not-completed", ""
	}
}

func c13Nested(run *evid.Run) (cases, notCompleted int) {
	depths := []int{1, 100, 10_000, 1_000_000, 3_000_000}
	if run.Thorough() {
		depths = append(depths, 300_000, 6_000_000)
	}
	for _, kind := range []string{"join", "leave"} {
		for _, shape := range []string{"array", "map"} {
			for _, d := range depths {
				c := c13NestedCase{kind, shape, d}
				cases++
				sig, msg := c13RunNested(c)
				if sig == "not-completed" {
					notCompleted++
					continue
				}
				if sig != "" {
					run.Violation("C13", sig, msg, map[string]any{"engine": "E3-C13-nested", "case": c})
				}
			}
		}
	}
	return
}

func init() {
	register("C13-nested-worker", c13NestedWorker)
	replayers["E3-C13-nested"] = func(path string) int {
		var doc struct {
			Replay struct {
				Case c13NestedCase `json:"case"`
			} `json:"replay"`
		}
		readJSON(path, &doc)
		s1, m1 := c13RunNested(doc.Replay.Case)
		s2, _ := c13RunNested(doc.Replay.Case)
		fmt.Println(s1, m1)
		if s1 != s2 {
			evid.Fatal("replay is not deterministic")
		}
		return 0
	}
}
