package main

import (
	"fmt"
	"net"
	"net/http"
	"net/url"
	"time"

	"github.com/gorilla/websocket"

	pikows "github.com/andydunstall/piko/pkg/websocket"
)

// adapterCloseDuringBlockedWrite: "closing either end ... releases both legs"
// also when the closing end is in the middle of a Write that back-pressure
// has blocked (the peer is not reading, the transport takes no more bytes):
// Close returns promptly and the blocked Write fails. The transport is an
// unbuffered in-memory pipe, so the Write blocks at once.
func adapterCloseDuringBlockedWrite() string {
	c1, c2 := net.Pipe()
	srvConnCh := make(chan *websocket.Conn, 1)
	up := websocket.Upgrader{}
	ln := &oneConnListener{c: c2, done: make(chan struct{})}
	srv := &http.Server{Handler: http.HandlerFunc(func(w http.ResponseWriter, r *http.Request) {
		c, err := up.Upgrade(w, r, nil)
		if err != nil {
			return
		}
		srvConnCh <- c
	})}
	go func() { _ = srv.Serve(ln) }()
	defer srv.Close()
	u, _ := url.Parse("ws://pair/")
	cc, _, err := websocket.NewClient(c1, u, nil, 1024, 1024)
	if err != nil {
		return "harness: " + err.Error()
	}
	select {
	case <-srvConnCh: // the server side never reads from now on
	case <-time.After(10 * time.Second):
		return "harness: server side did not upgrade"
	}
	a := pikows.New(cc)
	wrote := make(chan error, 1)
	go func() {
		var err error
		for i := 0; i < 64 && err == nil; i++ {
			_, err = a.Write(make([]byte, 64*1024))
		}
		wrote <- err
	}()
	select {
	case err := <-wrote:
		return fmt.Sprintf("harness: 4 MiB were written into a pipe nobody reads (err %v)", err)
	case <-time.After(300 * time.Millisecond): // the Write is blocked now
	}
	closed := make(chan struct{})
	go func() { _ = a.Close(); close(closed) }()
	select {
	case <-closed:
	case <-time.After(10 * time.Second):
		_ = c1.Close()
		return "Close did not return within 10s while a Write on the same connection was blocked by back-pressure"
	}
	select {
	case err := <-wrote:
		if err == nil {
			return "the Write that was blocked when the connection was closed reported success"
		}
	case <-time.After(10 * time.Second):
		_ = c1.Close()
		return "the Write that was blocked when the connection was closed never returned"
	}
	return ""
}
