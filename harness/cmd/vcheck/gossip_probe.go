package main

import (
	"fmt"
	"runtime/debug"
	"strconv"
	"time"

	"verifharness/internal/gw"
	"verifharness/internal/mc"
)

func init() {
	register("probe-gossip", func(args []string) int {
		debug.SetGCPercent(800)
		n := func(i, d int) int {
			if len(args) > i {
				v, _ := strconv.Atoi(args[i])
				return v
			}
			return d
		}
		st := &gw.Stats{}
		var sc *gw.Scenario
		switch n(0, 1) {
		case 1:
			sc = gw.S1(n(1, 165), n(2, 2), n(3, 3), n(4, 1), n(5, -1))
		case 2:
			sc = gw.S2(n(1, 165), n(2, 2), n(3, 3), n(4, 1), n(5, -1), false)
		case 3:
			sc = gw.S3(n(1, 165), n(2, 2), n(3, 3), n(4, 1), n(5, -1))
		}
		res := mc.Explore[gw.Event](&gw.Sys{Sc: sc, Stats: st}, mc.Options{Deadline: 120 * time.Second, DeterminismEvery: 500})
		fmt.Printf("states=%d trans=%d depth=%d exhaustive=%v cap=%q wall=%s levels=%v\n", res.States, res.Transitions, res.DepthCompleted, res.Exhaustive, res.CapHit, res.Wall, res.LevelSizes)
		fmt.Printf("stats=%+v\n", *st)
		for _, v := range res.Violations {
			fmt.Printf("VIOL %+v\n  hist=%v\n", v.V, v.History)
		}
		for _, s := range res.Samples {
			fmt.Println("sample", s)
		}
		return 0
	})
}
