package main

import (
	"encoding/json"
	"fmt"
	"runtime/debug"
	"strings"
	"time"

	"verifharness/internal/gw"
	"verifharness/internal/mc"
)

func init() {
	// probe-gossip '<json Params>' : explore one scenario and print sizes
	register("probe-gossip", func(args []string) int {
		debug.SetGCPercent(800)
		var p gw.Params
		if err := json.Unmarshal([]byte(args[0]), &p); err != nil {
			fmt.Println(err)
			return 2
		}
		st := &gw.Stats{}
		sc := gw.Build(p)
		res := mc.Explore[gw.Event](&gw.Sys{Sc: sc, Stats: st}, mc.Options{Deadline: 180 * time.Second, DeterminismEvery: 500, Known: func(v mc.Violation) bool { return len(args) > 1 && strings.HasPrefix(v.Sig, args[1]) }})
		fmt.Printf("states=%d trans=%d depth=%d exhaustive=%v cap=%q wall=%s levels=%v\n", res.States, res.Transitions, res.DepthCompleted, res.Exhaustive, res.CapHit, res.Wall, res.LevelSizes)
		fmt.Printf("stats=%+v\n", *st)
		for _, v := range res.Violations {
			fmt.Printf("VIOL %+v\n  hist=%v\n", v.V, v.History)
		}
		for _, v := range res.Known {
			fmt.Printf("KNOWN(%d hits) %+v\n  hist=%v\n", res.KnownHits, v.V, v.History)
		}
		return 0
	})
}
