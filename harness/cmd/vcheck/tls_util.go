package main

import (
	"context"
	"crypto/tls"
	"crypto/x509"
	"fmt"
	"os"
	"path/filepath"
	"time"

	"github.com/andydunstall/piko/server/config"
	"verifharness/internal/e4"
	"verifharness/internal/evid"
)

// tlsCluster: n real servers whose proxy ports listen on TLS and which forward
// to each other over TLS, configured the documented way: certificate + key on
// the port, root CAs for the node-to-node client, no server-name override.
type tlsCluster struct {
	nodes  []*e4.FullNode
	client *tls.Config
	dir    string
}

func startTLSCluster(n int) *tlsCluster {
	dir, err := os.MkdirTemp("", "verif-tls")
	if err != nil {
		evid.Fatal("tmp: %v", err)
	}
	if err := writeSelfSigned(dir); err != nil {
		evid.Fatal("self-signed certificate: %v", err)
	}
	cert, key := filepath.Join(dir, "cert.pem"), filepath.Join(dir, "key.pem")
	nodes, err := e4.StartCluster(n, func(i int, c *config.Config) {
		c.Proxy.TLS.Cert, c.Proxy.TLS.Key = cert, key
		c.Proxy.TLS.Client.RootCAs = cert
	})
	if err != nil {
		evid.Fatal("tls cluster: %v", err)
	}
	pem, _ := os.ReadFile(cert)
	pool := x509.NewCertPool()
	pool.AppendCertsFromPEM(pem)
	return &tlsCluster{nodes: nodes, client: &tls.Config{RootCAs: pool}, dir: dir}
}

func (t *tlsCluster) close() {
	for _, n := range t.nodes {
		n.Stop()
	}
	os.RemoveAll(t.dir)
}

// c01TLS: the settled clause on a TLS cluster: listeners of e1 on the last
// node and of e2 on the first; every entry node x addressing is served by an
// upstream of the addressed endpoint.
func c01TLS(run *evid.Run, prop string) (evals int) {
	t := startTLSCluster(2)
	defer t.close()
	ctx := context.Background()
	l1, err := e4.Listen(ctx, t.nodes[1].UpstreamAddr(), "e1", "tls-e1", e4.ListenOpts{})
	if err != nil {
		evid.Fatal("listen: %v", err)
	}
	defer l1.Ln.Shutdown() //nolint
	l2, err := e4.Listen(ctx, t.nodes[0].UpstreamAddr(), "e2", "tls-e2", e4.ListenOpts{})
	if err != nil {
		evid.Fatal("listen: %v", err)
	}
	defer l2.Ln.Shutdown() //nolint
	if !e4.WaitFor(30*time.Second, func() bool {
		a, ok1 := t.nodes[0].State().Node(t.nodes[1].ID)
		b, ok2 := t.nodes[1].State().Node(t.nodes[0].ID)
		return ok1 && ok2 && a.Endpoints["e1"] == 1 && b.Endpoints["e2"] == 1
	}) {
		evid.Fatal("tls cluster did not settle")
	}
	for e := range t.nodes {
		for _, a := range c01Addressings()[:8] {
			evals++
			ad := e4.Addressing{Mode: a.Mode, Endpoint: a.Endpoint, Other: a.Other, TLS: t.client}
			res := e4.Do(t.nodes[e].ProxyAddr(), ad)
			for r := 0; r < 3 && !(res.Status == 200 || res.Status == 101) && !e4.AllActive(t.nodes); r++ {
				e4.WaitAllActive(t.nodes, 30*time.Second) // membership flapped under load: decide afresh
				res = e4.Do(t.nodes[e].ProxyAddr(), ad)
			}
			desc := fmt.Sprintf("TLS cluster (certificate + root CAs, no server-name override), entry %d, %+v -> %s", e, a, res)
			ok := res.Status == 200 || res.Status == 101
			switch {
			case res.Err != "":
				run.Violation(prop, "request-failed", desc, map[string]any{"engine": "E4-" + prop + "-tls", "entry": e, "addressing": a})
			case ok && res.Endpoint != a.Endpoint:
				run.Violation(prop, "delivered-to-wrong-endpoint", desc, map[string]any{"engine": "E4-" + prop + "-tls", "entry": e, "addressing": a})
			case !ok:
				run.Violation(prop, "not-served-although-upstream-exists", desc, map[string]any{"engine": "E4-" + prop + "-tls", "entry": e, "addressing": a})
			}
		}
	}
	return evals
}
