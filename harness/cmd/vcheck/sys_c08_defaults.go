package main

import (
	"fmt"
	"time"

	"verifharness/internal/e4"
)

// c08DefaultTimeouts: a node with the shipped default configuration (proxy
// timeout 30 s) and an upstream that takes 10.5 s to answer - well within the
// configured timeout: its response must reach the client. Runs alongside the
// rest of the check (it needs 11 s of wall time).
func c08DefaultTimeouts() (sig, msg string) {
	nd, err := e4.StartNode(nil, nil)
	if err != nil {
		return "harness", "start node: " + err.Error()
	}
	defer nd.Stop()
	u, err := dialRaw(nd.UpstreamAddr(), "slow", "u-slow", "")
	if err != nil {
		return "harness", "connect upstream: " + err.Error()
	}
	defer u.sess.Close()
	if !e4.WaitFor(10*time.Second, func() bool { return nd.State().LocalNode().Endpoints["slow"] == 1 }) {
		return "harness", "upstream not registered"
	}
	if r := e4.DoHTTP(nd.ProxyAddr(), e4.Addressing{Mode: "header", Endpoint: "slow"}); r.Status != 200 {
		return "harness", fmt.Sprintf("control request -> %s", r)
	}
	t0 := time.Now()
	r := e4.DoHTTP(nd.ProxyAddr(), e4.Addressing{Mode: "header", Endpoint: "slow", Extra: map[string]string{"X-Verif-Sleep": "10500ms"}})
	if r.Status != 200 {
		return "slow-response-lost-with-default-timeouts", fmt.Sprintf("default configuration (proxy.timeout 30s, proxy.http.write-timeout 10s): the upstream answered after 10.5s, the client got %s after %s instead of the upstream's 200", r, time.Since(t0).Round(100*time.Millisecond))
	}
	return "", ""
}
