package main

import (
	"encoding/json"
	"fmt"
	"os"
	"reflect"
	"runtime/debug"
	"time"

	"verifharness/internal/evid"
	"verifharness/internal/gw"
	"verifharness/internal/mc"
)

// gossipJob is one scenario exploration of engine E1.
type gossipJob struct {
	P        gw.Params
	MaxDepth int
	Deadline time.Duration
	// Need lists vacuity counters that must be non-zero for the job to count.
	Need []string
}

type gossipReplay struct {
	Engine  string     `json:"engine"`
	Params  gw.Params  `json:"params"`
	History []gw.Event `json:"history"`
	Pretty  []string   `json:"pretty"`
}

func pretty(h []gw.Event) []string {
	out := make([]string, len(h))
	for i, e := range h {
		out[i] = e.String()
	}
	return out
}

func statMap(st *gw.Stats) map[string]int64 {
	m := map[string]int64{}
	v := reflect.ValueOf(*st)
	for i := 0; i < v.NumField(); i++ {
		m[v.Type().Field(i).Name] = v.Field(i).Int()
	}
	return m
}

// runGossip explores every job with only the oracle of `prop` enabled.
func runGossip(run *evid.Run, prop string, jobs []gossipJob) {
	debug.SetGCPercent(800)
	var states, transitions, replayChecks int
	allExhaustive := true
	var perScenario []map[string]any
	for _, j := range jobs {
		p := j.P
		p.Oracles = gw.OracleSet{}
		switch prop {
		case "C02":
			p.Oracles.C02 = true
		case "C03":
			p.Oracles.C03 = true
			p.Closure = true
		case "C04":
			p.Oracles.C04 = true
		case "C11":
			p.Oracles.C11 = true
		case "C13":
			p.Oracles.C13 = true
		case "C14":
			p.Oracles.C14 = true
		}
		st := &gw.Stats{}
		sc := gw.Build(p)
		res := mc.Explore[gw.Event](&gw.Sys{Sc: sc, Stats: st}, mc.Options{
			MaxDepth: j.MaxDepth, Deadline: j.Deadline, DeterminismEvery: 1000, ExploreBeyondKnown: true,
			Known: func(v mc.Violation) bool { _, ok := evid.IsKnown(v.Property, v.Sig); return ok },
		})
		states += res.States
		transitions += res.Transitions
		replayChecks += res.ReplayChecks
		if !res.Exhaustive {
			allExhaustive = false
		}
		sm := statMap(st)
		entry := map[string]any{
			"scenario": sc.Name, "params": p, "states": res.States, "transitions": res.Transitions,
			"depth_completed": res.DepthCompleted, "exhaustive": res.Exhaustive, "cap_hit": res.CapHit,
			"level_sizes": res.LevelSizes, "wall_s": res.Wall.Seconds(), "vacuity": sm,
			"known_finding_hits": res.KnownHits,
		}
		perScenario = append(perScenario, entry)
		fmt.Printf("  %s %s: states=%d transitions=%d depth=%d exhaustive=%v %s wall=%.1fs\n", prop, sc.Name, res.States, res.Transitions, res.DepthCompleted, res.Exhaustive, res.CapHit, res.Wall.Seconds())
		for _, f := range res.Known {
			run.Violation(f.V.Property, f.V.Sig, f.V.Msg, gossipReplay{"E1", p, f.History, pretty(f.History)})
		}
		for _, f := range res.Violations {
			run.Violation(f.V.Property, f.V.Sig, f.V.Msg, gossipReplay{"E1", p, f.History, pretty(f.History)})
		}
		for _, need := range j.Need {
			if sm[need] == 0 && len(res.Violations) == 0 {
				evid.Fatal("vacuous exploration: scenario %s never exercised %s", sc.Name, need)
			}
		}
		if len(res.Samples) > 0 {
			run.Sample(map[string]any{"scenario": sc.Name, "history": pretty(res.Samples[len(res.Samples)-1])})
		}
	}
	run.Set("states", states)
	run.Set("transitions", transitions)
	run.Set("traces_validated_against_impl", states)
	run.Set("determinism_replays", replayChecks)
	run.Set("exhaustive", allExhaustive)
	run.Set("scenarios", perScenario)
	run.Set("explanation", "explicit-state BFS whose transition function is the real piko code: every state is reached by executing its event history on fresh real components (clusterState, packetListener, streamListener, Gossip, syncer, cluster.State); there is no separate model, so every explored trace is an implementation trace (traces_validated_against_impl = states); determinism_replays histories were executed twice and gave identical canonical states")
}

// replayGossip re-executes a recorded history straight-line, twice.
func replayGossip(path string) int {
	b, err := os.ReadFile(path)
	if err != nil {
		evid.Fatal("replay: %v", err)
	}
	var doc struct {
		Property  string       `json:"property"`
		Signature string       `json:"signature"`
		Replay    gossipReplay `json:"replay"`
	}
	if err := json.Unmarshal(b, &doc); err != nil {
		evid.Fatal("replay: %v", err)
	}
	var outs [2]string
	for k := 0; k < 2; k++ {
		w := gw.NewWorld(gw.Build(doc.Replay.Params), &gw.Stats{})
		var out string
		for i, e := range doc.Replay.History {
			vs := w.Apply(e)
			out += fmt.Sprintf("%2d %s\n", i, e)
			for _, v := range vs {
				out += fmt.Sprintf("   -> %s [%s] %s\n", v.Property, v.Sig, v.Msg)
			}
		}
		for _, v := range w.Final() {
			out += fmt.Sprintf("   final -> %s [%s] %s\n", v.Property, v.Sig, v.Msg)
		}
		out += w.Canon()
		outs[k] = out
	}
	fmt.Print(outs[0], "\n")
	if outs[0] != outs[1] {
		evid.Fatal("replay is not deterministic")
	}
	return 0
}

func sec(n int) time.Duration { return time.Duration(n) * time.Second }

func init() {
	register("replay", func(args []string) int {
		if len(args) < 1 {
			evid.Fatal("usage: replay <path>")
		}
		b, _ := os.ReadFile(args[0])
		var doc struct {
			Replay struct {
				Engine string `json:"engine"`
			} `json:"replay"`
		}
		_ = json.Unmarshal(b, &doc)
		switch doc.Replay.Engine {
		case "E1":
			return replayGossip(args[0])
		}
		if f, ok := replayers[doc.Replay.Engine]; ok {
			return f(args[0])
		}
		evid.Fatal("replay: unknown engine %q", doc.Replay.Engine)
		return 2
	})
}

var replayers = map[string]func(path string) int{}
