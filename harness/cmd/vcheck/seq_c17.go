package main

import (
	"fmt"
	"sort"
	"strconv"
	"strings"
	"time"

	"github.com/andydunstall/piko/pkg/gossip"
	"verifharness/internal/evid"
	"verifharness/internal/mc"
)

// C17: a node's own published state is a last-write-wins map; compaction
// preserves live keys; observers that synchronise afterwards agree.
//
// Real clusterState for the owner plus a real clusterState for a stale
// observer that synchronises (real Digest/Delta/ApplyDelta, whole deltas) at
// explorer-chosen points. Reference model: a map and a counter.

type kvEvent struct {
	Kind string `json:"kind"` // up del compact leave sync
	K    string `json:"k,omitempty"`
	V    string `json:"v,omitempty"`
}

func (e kvEvent) String() string {
	switch e.Kind {
	case "up":
		return fmt.Sprintf("up(%s=%q)", e.K, e.V)
	case "del":
		return fmt.Sprintf("del(%s)", e.K)
	}
	return e.Kind
}

type nopFD struct{}

func (nopFD) Report(string)                 {}
func (nopFD) SuspicionLevel(string) float64 { return 0 }
func (nopFD) Remove(string)                 {}

type nopWatcher struct{}

func (nopWatcher) OnJoin(string)                {}
func (nopWatcher) OnLeave(string)               {}
func (nopWatcher) OnReachable(string)           {}
func (nopWatcher) OnUnreachable(string)         {}
func (nopWatcher) OnUpsertKey(_, _, _ string)   {}
func (nopWatcher) OnDeleteKey(_, _ string)      {}
func (nopWatcher) OnExpired(string)             {}

var sharedGossipMetrics = gossip.VNewMetrics()

type kvInst struct {
	owner *gossip.VClusterState
	g     *gossip.Gossip // the public API in front of the owner state
	stale *gossip.VClusterState
	// old holds the delta produced for the stale observer at its previous
	// synchronisation: it can be delivered again later (duplicate / delayed
	// datagram), after newer state was applied
	old  []gossip.VDelta // newest last, at most two
	late bool
	sys  *kvSys
	ref   map[string]string
	left  bool
	keys  []string
	vals  []string
}

type kvSys struct {
	keys, vals []string
	// late: the deltas of the stale observer's last two synchronisations can
	// be delivered again (duplicated / delayed datagrams)
	late bool
	// afterLeave: upserts/deletes stay enabled after a leave; noLeave: no leave
	afterLeave, noLeave bool
	// relay: at the end the stale observer catches up through a third node that
	// took the owner's state in full (and never saw what the observer saw)
	relay bool
}

func (s *kvSys) New() mc.Instance[kvEvent] {
	in := &kvInst{ref: map[string]string{}, keys: s.keys, vals: s.vals, late: s.late, sys: s}
	in.owner = gossip.VNewClusterState("own", "10.0.0.1:7000", nopFD{}, sharedGossipMetrics, nopWatcher{})
	in.stale = gossip.VNewClusterState("obs", "10.0.0.2:7000", nopFD{}, sharedGossipMetrics, nopWatcher{})
	in.g = gossip.VNewGossip(&gossip.Config{BindAddr: "10.0.0.1:7000", AdvertiseAddr: "10.0.0.1:7000", Interval: time.Second, MaxPacketSize: 1400}, in.owner, nil, nil, discardConn{}, nil, sharedGossipMetrics)
	return in
}

func (in *kvInst) Enabled() []kvEvent {
	var evs []kvEvent
	// the property is stated for every sequence, so writes after a leave are
	// part of the alphabet (the node keeps serving joins and gossip until it
	// is closed)
	if !in.left || in.sys.afterLeave {
		for _, k := range in.keys {
			for _, v := range in.vals {
				evs = append(evs, kvEvent{Kind: "up", K: k, V: v})
			}
			evs = append(evs, kvEvent{Kind: "del", K: k})
		}
	}
	if !in.left && !in.sys.noLeave {
		evs = append(evs, kvEvent{Kind: "leave"})
	}
	for i := range in.old {
		evs = append(evs, kvEvent{Kind: "late", K: strconv.Itoa(i)})
	}
	// compaction keeps running after leave (periodic task); production uses a
	// threshold of 100 tombstones, here 1: it needs at least one tombstone.
	for _, e := range in.owner.LocalNode().Entries {
		if e.Deleted {
			evs = append(evs, kvEvent{Kind: "compact"})
			break
		}
	}
	evs = append(evs, kvEvent{Kind: "sync"})
	return evs
}

func live(ns *gossip.NodeState) map[string]string {
	m := map[string]string{}
	for _, e := range ns.Entries {
		if !e.Deleted && !e.Internal {
			m[e.Key] = e.Value
		}
	}
	return m
}

func mapStr(m map[string]string) string {
	var ks []string
	for k := range m {
		ks = append(ks, k)
	}
	sort.Strings(ks)
	var sb strings.Builder
	for _, k := range ks {
		fmt.Fprintf(&sb, "%s=%q ", k, m[k])
	}
	return sb.String()
}

func syncObserver(owner, obs *gossip.VClusterState) {
	d := owner.Delta(obs.Digest(), true)
	obs.ApplyDelta(d)
}

func (in *kvInst) Replay(e kvEvent) { in.step(e, false) }
func (in *kvInst) Apply(e kvEvent) []mc.Violation { return in.step(e, true) }

func (in *kvInst) step(e kvEvent, check bool) []mc.Violation {
	var vs []mc.Violation
	bad := func(sig, format string, a ...any) {
		vs = append(vs, mc.Violation{Property: "C17", Clause: sig, Sig: sig, Msg: fmt.Sprintf(format, a...)})
	}
	pre := in.owner.LocalNode()
	preLive := live(pre)
	var maxPre uint64
	for _, en := range pre.Entries {
		if en.Version > maxPre {
			maxPre = en.Version
		}
	}
	if pre.Version > maxPre {
		maxPre = pre.Version
	}
	effective := false
	switch e.Kind {
	case "up":
		old, ok := in.ref[e.K]
		effective = !ok || old != e.V
		in.ref[e.K] = e.V
		in.g.UpsertLocal(e.K, e.V)
	case "del":
		_, ok := in.ref[e.K]
		effective = ok
		delete(in.ref, e.K)
		in.g.DeleteLocal(e.K)
	case "compact":
		in.owner.CompactLocal(1)
	case "leave":
		in.left = true
		in.owner.LeaveLocal()
	case "sync":
		d := in.owner.Delta(in.stale.Digest(), true)
		in.stale.ApplyDelta(d)
		if in.late {
			in.old = append(in.old, d)
			if len(in.old) > 2 {
				in.old = in.old[1:]
			}
		}
	case "late":
		// the datagram of an earlier synchronisation arrives once more
		i, _ := strconv.Atoi(e.K)
		if i < len(in.old) {
			in.stale.ApplyDelta(in.old[i])
			in.old = append(in.old[:i:i], in.old[i+1:]...)
		}
	}
	if !check {
		return nil
	}
	post := in.owner.LocalNode()
	postLive := live(post)
	if mapStr(postLive) != mapStr(in.ref) {
		bad("lww-map-differs", "after %s the published live state is {%s} but last-write-wins gives {%s}", e, mapStr(postLive), mapStr(in.ref))
	}
	switch e.Kind {
	case "up", "del":
		if effective {
			if post.Version <= pre.Version {
				bad("no-fresh-version", "effective change %s did not take a fresh version (%d -> %d)", e, pre.Version, post.Version)
			}
			found := false
			for _, en := range post.Entries {
				if en.Key == e.K {
					found = true
					if en.Version <= maxPre {
						bad("no-fresh-version", "entry written by %s has version %d, not above the previous maximum %d", e, en.Version, maxPre)
					}
				}
			}
			if !found {
				bad("lww-map-differs", "after %s there is no entry for %s at all", e, e.K)
			}
		} else if descNodeState(pre) != descNodeState(post) {
			bad("noop-consumed-version", "no-op %s changed the published state: %s -> %s", e, descNodeState(pre), descNodeState(post))
		}
	case "compact":
		if mapStr(preLive) != mapStr(postLive) {
			bad("compaction-changed-live-keys", "compaction changed the live state {%s} -> {%s}", mapStr(preLive), mapStr(postLive))
		}
		for _, en := range post.Entries {
			if en.Deleted {
				bad("compaction-kept-tombstone", "compaction kept tombstone %s", en.Key)
			}
		}
		if pre.Left != post.Left {
			bad("compaction-changed-left", "compaction changed the left flag")
		}
		if pre.Left {
			has := false
			for _, en := range post.Entries {
				if en.Key == gossip.VLeftKey {
					has = true
				}
			}
			if !has {
				bad("compaction-dropped-left-marker", "compaction after leave dropped the left marker")
			}
		}
	case "leave":
		if !post.Left {
			bad("leave-not-published", "leave did not set the left flag")
		}
		if mapStr(preLive) != mapStr(postLive) {
			bad("leave-changed-live-keys", "leave changed the live state")
		}
	case "sync", "late":
		if descNodeState(pre) != descNodeState(post) {
			bad("sync-changed-owner", "synchronising an observer changed the owner state")
		}
	}
	// versions of distinct entries are distinct and bounded by the node version
	seen := map[uint64]string{}
	for _, en := range post.Entries {
		if o, dup := seen[en.Version]; dup {
			bad("duplicate-version", "entries %s and %s share version %d", o, en.Key, en.Version)
		}
		seen[en.Version] = en.Key
		if en.Version > post.Version {
			bad("entry-above-node-version", "entry %s has version %d above the node version %d", en.Key, en.Version, post.Version)
		}
	}
	return vs
}

func descNodeState(n *gossip.NodeState) string {
	es := append([]gossip.Entry(nil), n.Entries...)
	sort.Slice(es, func(i, j int) bool { return es[i].Key < es[j].Key })
	var sb strings.Builder
	fmt.Fprintf(&sb, "v%d left=%v {", n.Version, n.Left)
	for _, e := range es {
		fmt.Fprintf(&sb, "%s=%q@%d d=%v i=%v ", e.Key, e.Value, e.Version, e.Deleted, e.Internal)
	}
	sb.WriteString("}")
	return sb.String()
}

// Canon replaces version numbers by their rank among all version values in
// the state (owner, observer, compaction-marker values). The code only ever
// compares versions and takes max+1, so order-isomorphic states have the same
// futures; this makes the reachable space finite and the search unbounded.
func (in *kvInst) Canon() string {
	own := in.owner.LocalNode()
	obs, _ := in.stale.Node("own")
	vals := map[uint64]bool{0: true, own.Version: true}
	collect := func(ns *gossip.NodeState) {
		if ns == nil {
			return
		}
		vals[ns.Version] = true
		for _, e := range ns.Entries {
			vals[e.Version] = true
			if e.Key == gossip.VCompactKey {
				if c, err := strconv.ParseUint(e.Value, 10, 64); err == nil {
					vals[c] = true
				}
			}
		}
	}
	collect(own)
	collect(obs)
	var sorted []uint64
	for v := range vals {
		sorted = append(sorted, v)
	}
	sort.Slice(sorted, func(i, j int) bool { return sorted[i] < sorted[j] })
	rank := map[uint64]int{}
	for i, v := range sorted {
		rank[v] = i
	}
	desc := func(ns *gossip.NodeState) string {
		if ns == nil {
			return "-"
		}
		es := append([]gossip.Entry(nil), ns.Entries...)
		sort.Slice(es, func(i, j int) bool { return es[i].Key < es[j].Key })
		var sb strings.Builder
		fmt.Fprintf(&sb, "v%d l=%v {", rank[ns.Version], ns.Left)
		for _, e := range es {
			val := e.Value
			if e.Key == gossip.VCompactKey {
				if c, err := strconv.ParseUint(e.Value, 10, 64); err == nil {
					val = fmt.Sprintf("r%d", rank[c])
				}
			}
			fmt.Fprintf(&sb, "%s=%q@%d d=%v ", e.Key, val, rank[e.Version], e.Deleted)
		}
		sb.WriteString("}")
		return sb.String()
	}
	// pending duplicates are part of the state; their versions are ranked
	// together with the others
	oldKey := ""
	for _, od := range in.old {
		oldKey += "["
		for _, de := range od {
			for _, e := range de.Entries {
				oldKey += fmt.Sprintf("%s=%q@%d d=%v ", e.Key, e.Value, rankOf(rank, sorted, e.Version), e.Deleted)
			}
		}
		oldKey += "]"
	}
	return desc(own) + "|" + desc(obs) + "|" + strconv.FormatBool(in.left) + "|" + oldKey
}

// rankOf ranks a version that may not itself be among the state's versions
// (an entry of a pending duplicate that was overwritten since).
func rankOf(rank map[uint64]int, sorted []uint64, v uint64) int {
	if r, ok := rank[v]; ok {
		return 2 * r
	}
	n := 0
	for _, x := range sorted {
		if x < v {
			n++
		}
	}
	return 2*n - 1
}

// Final: synchronise the stale observer and a brand-new one; both must end
// with exactly the owner's state, hence the same live keys.
func (in *kvInst) Final() []mc.Violation {
	var vs []mc.Violation
	fresh := gossip.VNewClusterState("new", "10.0.0.3:7000", nopFD{}, sharedGossipMetrics, nopWatcher{})
	own := in.owner.LocalNode()
	if in.sys.relay {
		relay := gossip.VNewClusterState("relay", "10.0.0.4:7000", nopFD{}, sharedGossipMetrics, nopWatcher{})
		syncObserver(in.owner, relay)
		syncObserver(relay, in.stale)
		if v, ok := in.stale.Node("own"); ok && v.Version == own.Version && mapStr(live(v)) != mapStr(in.ref) {
			vs = append(vs, mc.Violation{Property: "C17", Clause: "observer", Sig: "observer-live-state-differs-via-relay",
				Msg: fmt.Sprintf("the stale observer caught up through a node that had taken the owner's state in full: it reports the owner's version %d and sees {%s}, last-write-wins gives {%s}; owner %s, view %s", own.Version, mapStr(live(v)), mapStr(in.ref), descNodeState(own), descNodeState(v))})
		}
	}
	for name, obs := range map[string]*gossip.VClusterState{"stale": in.stale, "fresh": fresh} {
		syncObserver(in.owner, obs)
		v, ok := obs.Node("own")
		if !ok {
			vs = append(vs, mc.Violation{Property: "C17", Clause: "observer", Sig: "observer-missing-owner", Msg: name + " observer does not know the owner after synchronising"})
			continue
		}
		if mapStr(live(v)) != mapStr(in.ref) {
			vs = append(vs, mc.Violation{Property: "C17", Clause: "observer", Sig: "observer-live-state-differs",
				Msg: fmt.Sprintf("%s observer sees {%s} after synchronising, last-write-wins gives {%s}; owner %s, view %s", name, mapStr(live(v)), mapStr(in.ref), descNodeState(own), descNodeState(v))})
		}
	}
	return vs
}

type kvReplay struct {
	Engine  string    `json:"engine"`
	Keys    []string  `json:"keys"`
	Vals    []string  `json:"vals"`
	History []kvEvent `json:"history"`
	Pretty  []string  `json:"pretty"`
	Late    bool      `json:"late_deltas"`
	After   bool      `json:"writes_after_leave"`
	NoLeave bool      `json:"no_leave"`
	Relay   bool      `json:"stale_observer_catches_up_through_relay,omitempty"`
}

func init() {
	register("C17", func(args []string) int {
		run := evid.NewRun("C17", "model_checking")
		keys := []string{"a", "b"}
		vals := []string{"", "1", "2"}
		sys := &kvSys{keys: keys, vals: vals}
		opt := mc.Options{DeterminismEvery: 200, Known: func(v mc.Violation) bool { _, ok := evid.IsKnown(v.Property, v.Sig); return ok }}
		if run.Thorough() {
			opt.Deadline = sec(1200)
		} else {
			opt.Deadline = sec(120)
		}
		// second search: one key, and the deltas of the stale observer's last two
		// synchronisations can arrive again later (duplicate / delayed datagrams)
		// further searches over smaller alphabets, each adding one dimension:
		// writes after a leave; late re-delivery of the stale observer's last deltas
		extra := []*kvSys{
			{keys: []string{"a"}, vals: []string{"", "1"}, afterLeave: true},
			{keys: []string{"a"}, vals: []string{"1"}, late: true, noLeave: true},
			{keys: []string{"a", "b"}, vals: []string{"1"}, relay: true, noLeave: true},
		}
		if run.Thorough() {
			extra = []*kvSys{
				{keys: []string{"a", "b"}, vals: []string{"", "1"}, afterLeave: true},
				{keys: []string{"a"}, vals: []string{"", "1"}, late: true, noLeave: true},
				{keys: []string{"a", "b"}, vals: []string{"1"}, late: true, noLeave: true},
				{keys: []string{"a", "b"}, vals: []string{"", "1"}, relay: true},
			}
		}
		var xs []map[string]any
		xStates, xTrans, xExh := 0, 0, true
		for _, xsys := range extra {
			xopt := opt
			if xsys.late {
				// pending duplicates keep old versions alive, the space is not
				// finite: every history up to a depth bound instead
				xopt.MaxDepth = 9
				if run.Thorough() {
					xopt.MaxDepth = 12
				}
			}
			lres := mc.Explore[kvEvent](xsys, xopt)
			if xsys.late && lres.CapHit != "" && lres.DepthCompleted == xopt.MaxDepth {
				lres.Exhaustive = true // complete up to the stated depth bound
			}
			for _, f := range append(lres.Known, lres.Violations...) {
				var p []string
				for _, e := range f.History {
					p = append(p, e.String())
				}
				run.Violation("C17", f.V.Sig, f.V.Msg, kvReplay{"E3-C17", xsys.keys, xsys.vals, f.History, p, xsys.late, xsys.afterLeave, xsys.noLeave, xsys.relay})
			}
			fmt.Printf("  C17 (keys %v values %q late=%v writes-after-leave=%v): states=%d transitions=%d depth=%d exhaustive=%v %s\n", xsys.keys, xsys.vals, xsys.late, xsys.afterLeave, lres.States, lres.Transitions, lres.DepthCompleted, lres.Exhaustive, lres.CapHit)
			xs = append(xs, map[string]any{"keys": xsys.keys, "values": xsys.vals, "late_deltas": xsys.late, "writes_after_leave": xsys.afterLeave, "states": lres.States, "transitions": lres.Transitions, "exhaustive": lres.Exhaustive, "cap_hit": lres.CapHit})
			xStates += lres.States
			xTrans += lres.Transitions
			xExh = xExh && lres.Exhaustive
		}
		run.Set("additional_searches", xs)
		run.Assume("the searches with late re-delivery are complete up to their depth bound (9 quick / 12 thorough), the others are unbounded over a finite canonical state space")
		res := mc.Explore[kvEvent](sys, opt)
		res.States += xStates
		res.Transitions += xTrans
		res.Exhaustive = res.Exhaustive && xExh
		for _, f := range append(res.Known, res.Violations...) {
			var p []string
			for _, e := range f.History {
				p = append(p, e.String())
			}
			run.Violation("C17", f.V.Sig, f.V.Msg, kvReplay{"E3-C17", keys, vals, f.History, p, false, false, false, false})
		}
		for _, s := range res.Samples {
			var p []string
			for _, e := range s {
				p = append(p, e.String())
			}
			run.Sample(p)
		}
		run.Set("states", res.States)
		run.Set("transitions", res.Transitions)
		run.Set("traces_validated_against_impl", res.States)
		run.Set("determinism_replays", res.ReplayChecks)
		run.Set("depth_completed", res.DepthCompleted)
		run.Set("exhaustive", res.Exhaustive)
		run.Set("cap_hit", res.CapHit)
		run.Set("level_sizes", res.LevelSizes)
		run.Set("alphabet", map[string]any{"keys": keys, "values": vals, "ops": []string{"up", "del", "compact(threshold 1)", "leave", "sync(stale observer pulls a whole delta)"}})
		run.Set("explanation", "unbounded BFS over the real clusterState (owner) and a real observer state; states are de-duplicated after replacing version numbers by their rank (the code only compares versions and takes max+1), which makes the reachable space finite; reference model = map + counter; every discovered state additionally synchronises a stale and a fresh observer and compares live keys")
		fmt.Printf("  C17: states=%d transitions=%d depth=%d exhaustive=%v %s\n", res.States, res.Transitions, res.DepthCompleted, res.Exhaustive, res.CapHit)
		run.Set("bulk_key_cases", c17Bulk(run))
		run.Set("join_stream_cases", c17JoinStream(run))
		run.Set("two_node_datagram_cases", c17TwoNodes(run))
		schedPass(run)
		return run.Finish()
	})
	replayers["E3-C17"] = func(path string) int {
		var doc struct {
			Replay kvReplay `json:"replay"`
		}
		readJSON(path, &doc)
		var outs [2]string
		for k := 0; k < 2; k++ {
			in := (&kvSys{keys: doc.Replay.Keys, vals: doc.Replay.Vals, late: doc.Replay.Late, afterLeave: doc.Replay.After, noLeave: doc.Replay.NoLeave, relay: doc.Replay.Relay}).New().(*kvInst)
			out := ""
			for i, e := range doc.Replay.History {
				vs := in.Apply(e)
				out += fmt.Sprintf("%2d %s -> %s\n", i, e, descNodeState(in.owner.LocalNode()))
				for _, v := range vs {
					out += fmt.Sprintf("   -> %s [%s] %s\n", v.Property, v.Sig, v.Msg)
				}
			}
			for _, v := range in.Final() {
				out += fmt.Sprintf("   final -> %s [%s] %s\n", v.Property, v.Sig, v.Msg)
			}
			outs[k] = out
		}
		fmt.Print(outs[0])
		if outs[0] != outs[1] {
			evid.Fatal("replay is not deterministic")
		}
		return 0
	}
}
