package main

import (
	"fmt"

	"verifharness/internal/e4"
	"verifharness/internal/evid"
)

// c08LBSequences: an endpoint with 2-3 local upstreams; k requests (which
// leave the round-robin cursor anywhere), one of the upstreams disconnects,
// then more requests: as long as a healthy upstream is connected every
// request is answered by an upstream - never by Piko with a 5xx.
func c08LBSequences(run *evid.Run, evals, nontrivial *int) {
	for _, n := range []int{2, 3} {
		for before := 0; before <= n+1; before++ {
			for gone := 0; gone < n; gone++ {
				cl := e4.NewCompCluster(1, e4.DefaultProxyConfig(), nil)
				var ups []*e4.StampUpstream
				for i := 0; i < n; i++ {
					u := &e4.StampUpstream{Endpoint: "e1", Name: fmt.Sprintf("u%d", i), Node: "n0"}
					ups = append(ups, u)
					cl.Nodes[0].Mgr.AddConn(u)
				}
				desc := fmt.Sprintf("%d local upstreams, %d requests, upstream u%d disconnects, %d more requests", n, before, gone, n+1)
				bad := ""
				for k := 0; k < before && bad == ""; k++ {
					if r := e4.Do(cl.Nodes[0].Addr, e4.Addressing{Mode: "header", Endpoint: "e1"}); r.Status != 200 {
						bad = fmt.Sprintf("request %d before the disconnect -> %s", k+1, r)
					}
				}
				cl.Nodes[0].Mgr.RemoveConn(ups[gone])
				for k := 0; k < n+1 && bad == ""; k++ {
					r := e4.Do(cl.Nodes[0].Addr, e4.Addressing{Mode: "header", Endpoint: "e1"})
					if r.Status != 200 || r.Upstream == ups[gone].Name {
						bad = fmt.Sprintf("request %d after the disconnect -> %s", k+1, r)
					}
				}
				cl.Close()
				*evals++
				*nontrivial++
				if bad != "" {
					run.Violation("C08", "gateway-error-although-upstream-connected", desc+": "+bad, map[string]any{"engine": "E4-C08", "failure_case": desc})
				}
			}
		}
	}
}
