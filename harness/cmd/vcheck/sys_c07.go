package main

import (
	"bytes"
	"context"
	"crypto/ecdsa"
	"crypto/elliptic"
	"crypto/rand"
	"crypto/tls"
	"crypto/x509"
	"crypto/x509/pkix"
	"encoding/pem"
	"errors"
	"fmt"
	"io"
	"math/big"
	"net"
	"net/http"
	"net/url"
	"os"
	"path/filepath"
	"sync"
	"sync/atomic"
	"time"

	"github.com/gorilla/websocket"

	agentconfig "github.com/andydunstall/piko/agent/config"
	"github.com/andydunstall/piko/agent/tcpproxy"
	"github.com/andydunstall/piko/client"
	"github.com/andydunstall/piko/forward"
	"github.com/andydunstall/piko/pkg/log"
	"github.com/andydunstall/piko/server/config"
	pikows "github.com/andydunstall/piko/pkg/websocket"
	"verifharness/internal/e4"
	"verifharness/internal/evid"
)

// C07: tunnelled connections are faithful byte streams with close propagation.

// ---------------------------------------------------------------------------
// A. the WebSocket net.Conn adapter, deterministic grid

// fragConn limits every Read to at most *frag bytes (0 = unlimited).
type fragConn struct {
	net.Conn
	frag *atomic.Int64
}

func (c *fragConn) Read(p []byte) (int, error) {
	if f := c.frag.Load(); f > 0 && int64(len(p)) > f {
		p = p[:f]
	}
	return c.Conn.Read(p)
}

type wsPair struct {
	a, b   *pikows.Conn // two ends of one WebSocket connection
	ra, rb *websocket.Conn
	frag   atomic.Int64
	srv    *http.Server
}

type oneConnListener struct {
	c    net.Conn
	once sync.Once
	done chan struct{}
}

func (l *oneConnListener) Accept() (net.Conn, error) {
	var c net.Conn
	l.once.Do(func() { c = l.c })
	if c != nil {
		return c, nil
	}
	<-l.done
	return nil, net.ErrClosed
}
func (l *oneConnListener) Close() error   { select { case <-l.done: default: close(l.done) }; return nil }
func (l *oneConnListener) Addr() net.Addr { return &net.TCPAddr{} }

func newWSPair() (*wsPair, error) {
	p := &wsPair{}
	// buffered transport: writes never block, so a trailing empty message
	// simply waits in the buffer and is met by the next run on this pair
	c1, c2 := e4.BufPipe()
	srvConnCh := make(chan *websocket.Conn, 1)
	up := websocket.Upgrader{}
	ln := &oneConnListener{c: &fragConn{Conn: c2, frag: &p.frag}, done: make(chan struct{})}
	p.srv = &http.Server{Handler: http.HandlerFunc(func(w http.ResponseWriter, r *http.Request) {
		c, err := up.Upgrade(w, r, nil)
		if err != nil {
			return
		}
		srvConnCh <- c
	})}
	go func() { _ = p.srv.Serve(ln) }()
	u, _ := url.Parse("ws://pair/")
	cc, _, err := websocket.NewClient(&fragConn{Conn: c1, frag: &p.frag}, u, nil, 1024, 1024)
	if err != nil {
		return nil, err
	}
	select {
	case sc := <-srvConnCh:
		p.ra, p.rb = cc, sc
		p.a, p.b = pikows.New(cc), pikows.New(sc)
	case <-time.After(10 * time.Second):
		return nil, errors.New("websocket pair: server side did not upgrade")
	}
	return p, nil
}

func (p *wsPair) close() {
	p.a.Close()
	p.b.Close()
	_ = p.srv.Close()
}

type adapterCase struct {
	Payload  int   `json:"payload_bytes"`
	Cuts     int   `json:"composition"`   // bit i set: message boundary after byte i
	Empties  int   `json:"empty_message_gaps"` // bit g set: an empty message in gap g
	Pattern  []int `json:"read_buffer_pattern"`
	Fragment int   `json:"transport_read_limit"`
	Reverse  bool  `json:"direction_b_to_a"`
}

// runAdapter writes the payload as the given messages on one end and reads it
// with the given buffer pattern on the other.
func runAdapter(p *wsPair, c adapterCase) (sig, msg string) {
	w, r := p.a, p.b
	if c.Reverse {
		w, r = p.b, p.a
	}
	p.frag.Store(int64(c.Fragment))
	payload := make([]byte, c.Payload)
	for i := range payload {
		payload[i] = byte('A' + i)
	}
	// messages
	var msgs [][]byte
	start := 0
	gap := 0
	emit := func(b []byte) { msgs = append(msgs, b) }
	if c.Empties&(1<<uint(gap)) != 0 {
		emit([]byte{})
	}
	gap++
	for i := 0; i < c.Payload; i++ {
		if i == c.Payload-1 || c.Cuts&(1<<uint(i)) != 0 {
			emit(payload[start : i+1])
			start = i + 1
			if c.Empties&(1<<uint(gap)) != 0 {
				emit([]byte{})
			}
			gap++
		}
	}
	werr := make(chan error, 1)
	go func() {
		for _, m := range msgs {
			n, err := w.Write(m)
			if err != nil {
				werr <- fmt.Errorf("write: %w", err)
				return
			}
			if n != len(m) {
				werr <- fmt.Errorf("write returned %d for %d bytes", n, len(m))
				return
			}
		}
		werr <- nil
	}()
	var got []byte
	// the transport is in memory: a read that gets nothing for 5s never will
	_ = r.SetReadDeadline(time.Now().Add(5 * time.Second))
	for k := 0; len(got) < c.Payload; k++ {
		buf := make([]byte, c.Pattern[k%len(c.Pattern)])
		n, err := r.Read(buf)
		if err != nil {
			return "adapter-read-error", fmt.Sprintf("%+v: read failed after %d of %d bytes: %v", c, len(got), c.Payload, err)
		}
		if n == 0 {
			return "adapter-zero-read", fmt.Sprintf("%+v: Read with a %d-byte buffer returned (0, nil)", c, len(buf))
		}
		got = append(got, buf[:n]...)
	}
	if err := <-werr; err != nil {
		return "adapter-write-error", fmt.Sprintf("%+v: %v", c, err)
	}
	if !bytes.Equal(got, payload) {
		return "adapter-bytes-differ", fmt.Sprintf("%+v: wrote %q, read %q", c, payload, got)
	}
	return "", ""
}

func adapterSpecials() (evals int, fails [][2]string) {
	fail := func(sig, msg string) { fails = append(fails, [2]string{sig, msg}) }
	// text message must not be delivered as bytes
	{
		evals++
		p, err := newWSPair()
		if err != nil {
			evid.Fatal("ws pair: %v", err)
		}
		go func() { _ = p.ra.WriteMessage(websocket.TextMessage, []byte("text")) }()
		_ = p.b.SetReadDeadline(time.Now().Add(10 * time.Second))
		n, err := p.b.Read(make([]byte, 16))
		if err == nil {
			fail("adapter-text-message-delivered", fmt.Sprintf("a text message was delivered as %d bytes of stream data", n))
		}
		p.close()
	}
	// ping interleaved with data is invisible to the stream
	{
		evals++
		p, err := newWSPair()
		if err != nil {
			evid.Fatal("ws pair: %v", err)
		}
		go func() {
			_, _ = p.a.Write([]byte("ab"))
			_ = p.ra.WriteControl(websocket.PingMessage, []byte("p"), time.Now().Add(5*time.Second))
			_, _ = p.a.Write([]byte("cd"))
		}()
		// the pong is written by the reader's side; drain it on the other end
		go func() {
			for {
				if _, _, err := p.ra.NextReader(); err != nil {
					return
				}
			}
		}()
		_ = p.b.SetReadDeadline(time.Now().Add(10 * time.Second))
		var got []byte
		for len(got) < 4 {
			buf := make([]byte, 3)
			n, err := p.b.Read(buf)
			if err != nil {
				fail("adapter-read-error", "ping interleaved with data: "+err.Error())
				break
			}
			got = append(got, buf[:n]...)
		}
		if len(got) == 4 && string(got) != "abcd" {
			fail("adapter-bytes-differ", fmt.Sprintf("ping interleaved with data: read %q", got))
		}
		p.close()
	}
	// Close while a Write is blocked by back-pressure (sys_c07_blocked.go)
	{
		evals++
		if msg := adapterCloseDuringBlockedWrite(); msg != "" {
			fail("adapter-close-blocked-by-write", msg)
		}
	}
	// close frame => error (net.ErrClosed), after the pending data
	{
		evals++
		p, err := newWSPair()
		if err != nil {
			evid.Fatal("ws pair: %v", err)
		}
		go func() {
			_, _ = p.a.Write([]byte("xyz"))
			_ = p.ra.WriteControl(websocket.CloseMessage, websocket.FormatCloseMessage(websocket.CloseNormalClosure, ""), time.Now().Add(5*time.Second))
		}()
		_ = p.b.SetReadDeadline(time.Now().Add(10 * time.Second))
		var got []byte
		var rerr error
		for {
			buf := make([]byte, 2)
			n, err := p.b.Read(buf)
			got = append(got, buf[:n]...)
			if err != nil {
				rerr = err
				break
			}
			if len(got) > 16 {
				break
			}
		}
		if string(got) != "xyz" {
			fail("adapter-bytes-differ", fmt.Sprintf("data before a close frame: read %q, want \"xyz\"", got))
		}
		if rerr == nil || !errors.Is(rerr, net.ErrClosed) {
			fail("adapter-close-not-reported", fmt.Sprintf("after a close frame Read returned %v, want net.ErrClosed", rerr))
		}
		if n, err := p.b.Read(make([]byte, 4)); err == nil {
			fail("adapter-read-after-close", fmt.Sprintf("Read after close returned %d bytes and no error", n))
		}
		p.close()
	}
	// abrupt transport end => error, no phantom bytes
	{
		evals++
		p, err := newWSPair()
		if err != nil {
			evid.Fatal("ws pair: %v", err)
		}
		go func() {
			_, _ = p.a.Write([]byte("12"))
			_ = p.ra.NetConn().Close()
		}()
		_ = p.b.SetReadDeadline(time.Now().Add(10 * time.Second))
		var got []byte
		var rerr error
		for len(got) < 16 {
			buf := make([]byte, 5)
			n, err := p.b.Read(buf)
			got = append(got, buf[:n]...)
			if err != nil {
				rerr = err
				break
			}
		}
		if string(got) != "12" || rerr == nil {
			fail("adapter-abrupt-end", fmt.Sprintf("abrupt transport end: read %q err %v", got, rerr))
		}
		p.close()
	}
	return
}

func adapterGrid(run *evid.Run, full bool) (evals, nontrivial int) {
	maxN := 6
	if full {
		maxN = 8
	}
	patterns := [][]int{{1}, {2}, {3}, {5}, {8}, {1, 2}, {2, 1}, {3, 1}}
	frags := []int{1, 2, 5, 0}
	var cases []adapterCase
	for n := 1; n <= maxN; n++ {
		for cuts := 0; cuts < 1<<uint(n-1); cuts++ {
			gaps := 2
			for b := cuts; b != 0; b &= b - 1 {
				gaps++
			}
			for emp := 0; emp < 1<<uint(gaps); emp++ {
				pop := 0
				for b := emp; b != 0; b &= b - 1 {
					pop++
				}
				if pop > 2 {
					continue
				}
				for _, pt := range patterns {
					for _, f := range frags {
						cases = append(cases, adapterCase{Payload: n, Cuts: cuts, Empties: emp, Pattern: pt, Fragment: f})
					}
				}
			}
		}
	}
	ch := make(chan adapterCase, 256)
	var wg sync.WaitGroup
	var mu sync.Mutex
	for k := 0; k < 16; k++ {
		wg.Add(1)
		go func() {
			defer wg.Done()
			p, err := newWSPair()
			if err != nil {
				evid.Fatal("ws pair: %v", err)
			}
			defer func() { p.close() }()
			i := 0
			for c := range ch {
				// alternate directions on the same pair: runs start from whatever
				// state the previous run left in the adapter
				c.Reverse = i%2 == 1
				i++
				if run.Violations() >= 3 {
					continue // enough counterexamples; do not wait out more timeouts
				}
				sig, msg := runAdapter(p, c)
				mu.Lock()
				evals++
				if c.Cuts != 0 || c.Empties != 0 || c.Fragment != 0 {
					nontrivial++
				}
				if evals%4001 == 1 {
					run.Sample(c)
				}
				mu.Unlock()
				if sig != "" {
					run.Violation("C07", sig, msg, map[string]any{"engine": "E3-C07", "case": c})
					p.close()
					if p, err = newWSPair(); err != nil {
						evid.Fatal("ws pair: %v", err)
					}
				}
			}
		}()
	}
	for _, c := range cases {
		ch <- c
	}
	close(ch)
	wg.Wait()
	e2, fails := adapterSpecials()
	evals += e2
	nontrivial += e2
	for _, f := range fails {
		run.Violation("C07", f[0], f[1], map[string]any{"engine": "E3-C07", "case": "special"})
	}
	return
}

// ---------------------------------------------------------------------------
// B. whole tunnels on real nodes

type tunnelCase struct {
	Path   string `json:"path"`   // dialer-local dialer-forwarded forwarder agent-tcpproxy client-forwarder
	Size   int    `json:"bytes"`
	Empty  bool   `json:"empty_write_between"`
	Closer string `json:"closer"` // client | upstream
	TLS    bool   `json:"tls_cluster,omitempty"`
	// Greet: the upstream end speaks first (a greeting written on accept,
	// before the client has written anything); the client reads it before
	// its first write
	Greet bool `json:"upstream_speaks_first,omitempty"`
}

const tunnelGreeting = "220 upstream speaks first\r\n"

// echoServer: a TCP-level upstream behaviour shared by all paths: echo
// everything; if limit >= 0 close after echoing limit bytes.
type echoBehaviour struct {
	limit   atomic.Int64
	sawEOF  chan struct{}
	handled atomic.Int64
	// stream: the service ignores what it receives and keeps sending until a
	// write fails (a streaming service); writeFailed reports that
	stream      atomic.Bool
	writeFailed chan struct{}
	greet       atomic.Bool
}

func (e *echoBehaviour) serve(c net.Conn) {
	defer c.Close()
	e.handled.Add(1)
	if e.stream.Load() {
		chunk := bytes.Repeat([]byte("stream--"), 512)
		for {
			_ = c.SetWriteDeadline(time.Now().Add(60 * time.Second))
			if _, err := c.Write(chunk); err != nil {
				var ne net.Error
				if !(errors.As(err, &ne) && ne.Timeout()) {
					select {
					case e.writeFailed <- struct{}{}:
					default:
					}
				}
				return
			}
			time.Sleep(time.Millisecond)
		}
	}
	if e.greet.Load() {
		if _, err := c.Write([]byte(tunnelGreeting)); err != nil {
			return
		}
	}
	limit := e.limit.Load()
	var n int64
	buf := make([]byte, 32*1024)
	for {
		k, err := c.Read(buf)
		if k > 0 {
			if _, werr := c.Write(buf[:k]); werr != nil {
				return
			}
			n += int64(k)
			if limit >= 0 && n >= limit {
				return // upstream closes first
			}
		}
		if err != nil {
			select {
			case e.sawEOF <- struct{}{}:
			default:
			}
			return
		}
	}
}

type tunnelWorld struct {
	tls    *tls.Config // set: the proxy ports (and node-to-node forwarding) use TLS
	nodes  []*e4.FullNode
	echo   *echoBehaviour
	raw    *rawUpstream // endpoint t1: harness-held yamux session (stream count observable)
	fwdLn  net.Listener
	agent  *tcpproxy.Server
	echoLn net.Listener
	aln    client.Listener
	cfwd   *client.Forwarder
}

func newTunnelWorld() *tunnelWorld { return newTunnelWorldTLS("") }

// newTunnelWorldTLS: with tlsDir set, the proxy ports listen on TLS and the
// nodes forward to each other over TLS (cert.pem/key.pem in tlsDir).
func newTunnelWorldTLS(tlsDir string) *tunnelWorld { return newTunnelWorldCfg(tlsDir, 0) }

// newTunnelWorldCfg: proxyTimeout > 0 sets proxy.timeout (tunnels are exempt
// from it, however long they live).
func newTunnelWorldCfg(tlsDir string, proxyTimeout time.Duration) *tunnelWorld {
	mutate := func(i int, c *config.Config) {
		if proxyTimeout > 0 {
			c.Proxy.Timeout = proxyTimeout
		}
	}
	var clientTLS *tls.Config
	if tlsDir != "" {
		cert, key := filepath.Join(tlsDir, "cert.pem"), filepath.Join(tlsDir, "key.pem")
		mutate = func(i int, c *config.Config) {
			if proxyTimeout > 0 {
				c.Proxy.Timeout = proxyTimeout
			}
			c.Proxy.TLS.Cert, c.Proxy.TLS.Key = cert, key
			c.Proxy.TLS.Client.RootCAs = cert
		}
		pem, _ := os.ReadFile(cert)
		pool := x509.NewCertPool()
		pool.AppendCertsFromPEM(pem)
		clientTLS = &tls.Config{RootCAs: pool}
	}
	nodes, err := e4.StartCluster(2, mutate)
	if err != nil {
		evid.Fatal("cluster: %v", err)
	}
	w := &tunnelWorld{tls: clientTLS, nodes: nodes, echo: &echoBehaviour{sawEOF: make(chan struct{}, 8), writeFailed: make(chan struct{}, 8)}}
	w.echo.limit.Store(-1)
	// t1: yamux session held by the harness on node 1
	raw, err := dialRawWith(nodes[1].UpstreamAddr(), "t1", "raw", "", w.echo.serve)
	if err != nil {
		evid.Fatal("raw upstream: %v", err)
	}
	w.raw = raw
	// t2: real client listener + agent TCP proxy -> local TCP echo server
	w.echoLn, _ = net.Listen("tcp", "127.0.0.1:0")
	go func() {
		for {
			c, err := w.echoLn.Accept()
			if err != nil {
				return
			}
			go w.echo.serve(c)
		}
	}()
	up := &client.Upstream{URL: &url.URL{Scheme: "http", Host: nodes[1].UpstreamAddr()}}
	w.aln, err = up.Listen(context.Background(), "t2")
	if err != nil {
		evid.Fatal("listen t2: %v", err)
	}
	w.agent = tcpproxy.NewServer(agentconfig.ListenerConfig{EndpointID: "t2", Addr: w.echoLn.Addr().String(), Timeout: 10 * time.Second, AccessLog: log.AccessLogConfig{Disable: true}}, log.NewNopLogger())
	go func() { _ = w.agent.Serve(w.aln) }()
	// t3: client.ListenAndForward -> local TCP echo server
	w.cfwd, err = up.ListenAndForward(context.Background(), "t3", w.echoLn.Addr().String())
	if err != nil {
		evid.Fatal("listen-and-forward t3: %v", err)
	}
	// forward proxy: local TCP port -> dialer -> node 0 -> node 1 -> t1
	w.fwdLn, _ = net.Listen("tcp", "127.0.0.1:0")
	f := forward.NewForwarder("t1", w.dialer(0), log.NewNopLogger())
	go func() { _ = f.Forward(w.fwdLn) }()
	if !e4.WaitFor(20*time.Second, func() bool {
		n, ok := nodes[0].State().Node(nodes[1].ID)
		return ok && n.Endpoints["t1"] == 1 && n.Endpoints["t2"] == 1 && n.Endpoints["t3"] == 1
	}) {
		evid.Fatal("tunnel cluster did not settle")
	}
	return w
}

func (w *tunnelWorld) dialer(node int) *client.Dialer {
	scheme := "http"
	if w.tls != nil {
		scheme = "https"
	}
	return &client.Dialer{URL: &url.URL{Scheme: scheme, Host: w.nodes[node].ProxyAddr()}, TLSConfig: w.tls}
}

func (w *tunnelWorld) close() {
	w.fwdLn.Close()
	_ = w.cfwd.Close()
	_ = w.agent.Close()
	_ = w.aln.Shutdown()
	w.echoLn.Close()
	w.raw.sess.Close()
	for _, n := range w.nodes {
		n.Stop()
	}
}

func (w *tunnelWorld) open(path string) (net.Conn, error) {
	ctx, cancel := context.WithTimeout(context.Background(), 20*time.Second)
	defer cancel()
	switch path {
	case "dialer-local":
		return w.dialer(1).Dial(ctx, "t1")
	case "dialer-forwarded":
		return w.dialer(0).Dial(ctx, "t1")
	case "forwarder":
		return net.DialTimeout("tcp", w.fwdLn.Addr().String(), 10*time.Second)
	case "agent-tcpproxy":
		return w.dialer(0).Dial(ctx, "t2")
	case "client-forwarder":
		return w.dialer(1).Dial(ctx, "t3")
	}
	return nil, fmt.Errorf("unknown path %s", path)
}

func (w *tunnelWorld) run(c tunnelCase) (sig, msg string) {
	desc := fmt.Sprintf("%+v", c)
	for len(w.echo.sawEOF) > 0 {
		<-w.echo.sawEOF
	}
	limit := int64(-1)
	if c.Closer == "upstream" {
		limit = int64(c.Size)
	}
	w.echo.limit.Store(limit)
	w.echo.stream.Store(c.Closer == "client-while-upstream-streams")
	defer w.echo.stream.Store(false)
	w.echo.greet.Store(c.Greet)
	defer w.echo.greet.Store(false)
	conn, err := w.open(c.Path)
	if err != nil {
		return "tunnel-open-failed", desc + ": " + err.Error()
	}
	defer conn.Close()
	if c.Greet {
		_ = conn.SetDeadline(time.Now().Add(30 * time.Second))
		g := make([]byte, len(tunnelGreeting))
		if n, err := io.ReadFull(conn, g); err != nil || string(g) != tunnelGreeting {
			return "upstream-bytes-not-delivered-before-client-writes", fmt.Sprintf("%s: the upstream end wrote a %d-byte greeting on accept; 30s later the client, which has written nothing yet, has %d bytes of it (%q, err %v)", desc, len(tunnelGreeting), n, g[:n], err)
		}
	}
	if c.Closer == "client-while-upstream-streams" {
		// the service only sends; the client takes some of it and closes: the
		// service's next writes must fail (the tunnel has no half-close)
		for len(w.echo.writeFailed) > 0 {
			<-w.echo.writeFailed
		}
		_ = conn.SetDeadline(time.Now().Add(30 * time.Second))
		if _, err := io.ReadFull(conn, make([]byte, c.Size)); err != nil {
			return "tunnel-bytes-differ", fmt.Sprintf("%s: reading %d streamed bytes: %v", desc, c.Size, err)
		}
		conn.Close()
		select {
		case <-w.echo.writeFailed:
		case <-time.After(25 * time.Second):
			return "close-not-propagated-to-upstream", desc + ": 25s after the client closed the tunnel the streaming upstream service can still write into it"
		}
		return "", ""
	}
	_ = conn.SetDeadline(time.Now().Add(60 * time.Second))
	payload := make([]byte, c.Size)
	for i := range payload {
		payload[i] = byte(i*7 + i>>8)
	}
	werr := make(chan error, 1)
	go func() {
		half := len(payload) / 2
		if _, err := conn.Write(payload[:half]); err != nil {
			werr <- err
			return
		}
		if c.Empty {
			if _, err := conn.Write(nil); err != nil {
				werr <- err
				return
			}
		}
		_, err := conn.Write(payload[half:])
		werr <- err
	}()
	got := make([]byte, 0, c.Size)
	buf := make([]byte, 7001)
	var rerr error
	for len(got) < c.Size {
		n, err := conn.Read(buf)
		got = append(got, buf[:n]...)
		if err != nil {
			rerr = err
			break
		}
	}
	if err := <-werr; err != nil && c.Closer == "client" {
		return "tunnel-write-failed", desc + ": " + err.Error()
	}
	if !bytes.Equal(got, payload) {
		return "tunnel-bytes-differ", fmt.Sprintf("%s: echoed %d of %d bytes (first difference at %d), read error %v", desc, len(got), len(payload), firstDiff(got, payload), rerr)
	}
	if c.Closer == "upstream" {
		// the upstream closed after echoing everything: end-of-stream, no more bytes
		_ = conn.SetReadDeadline(time.Now().Add(15 * time.Second))
		n, err := conn.Read(buf)
		var ne net.Error
		if n != 0 || err == nil || (errors.As(err, &ne) && ne.Timeout()) {
			return "close-not-propagated-to-client", fmt.Sprintf("%s: 15s after the upstream closed the client still has not seen end-of-stream (read %d bytes, err %v)", desc, n, err)
		}
	} else {
		conn.Close()
		select {
		case <-w.echo.sawEOF:
		case <-time.After(20 * time.Second):
			return "close-not-propagated-to-upstream", desc + ": the upstream did not observe end-of-stream within 20s of the client closing"
		}
	}
	// both legs released: no stream left open on the upstream's session
	if c.Path == "dialer-local" || c.Path == "dialer-forwarded" || c.Path == "forwarder" {
		if !e4.WaitFor(20*time.Second, func() bool { return w.raw.sess.NumStreams() == 0 }) {
			return "tunnel-leg-leaked", fmt.Sprintf("%s: %d stream(s) still open on the upstream session", desc, w.raw.sess.NumStreams())
		}
	}
	return "", ""
}

var tunnelPaths = []string{"dialer-local", "dialer-forwarded", "forwarder", "agent-tcpproxy", "client-forwarder"}

// longLived: one tunnel per path, all open at once, used every 400ms for
// longer than any dial/handshake deadline in the path (idle and busy
// alternate); every byte must come back, nobody may see end-of-stream until
// the client closes, and then the upstream must.
func (w *tunnelWorld) longLived(world string, d time.Duration) (n int, fails [][2]string) {
	var mu sync.Mutex
	var wg sync.WaitGroup
	for _, p := range tunnelPaths {
		wg.Add(1)
		n++
		go func(p string) {
			defer wg.Done()
			fail := func(sig, msg string) {
				mu.Lock()
				fails = append(fails, [2]string{sig, fmt.Sprintf("%s world, path %s: %s", world, p, msg)})
				mu.Unlock()
			}
			conn, err := w.open(p)
			if err != nil {
				e4.WaitAllActive(w.nodes, 30*time.Second)
				conn, err = w.open(p)
			}
			if err != nil {
				fail("tunnel-open-failed", err.Error())
				return
			}
			defer conn.Close()
			t0 := time.Now()
			buf := make([]byte, 64)
			for i := 0; time.Since(t0) < d; i++ {
				msg := []byte(fmt.Sprintf("chunk-%03d-%s", i, p))
				_ = conn.SetDeadline(time.Now().Add(20 * time.Second))
				if _, err := conn.Write(msg); err != nil {
					fail("long-lived-tunnel-broken", fmt.Sprintf("write of chunk %d, %s after connect: %v", i, time.Since(t0).Round(time.Millisecond), err))
					return
				}
				got := 0
				for got < len(msg) {
					k, err := conn.Read(buf[got:len(msg)])
					got += k
					if err != nil {
						fail("long-lived-tunnel-broken", fmt.Sprintf("chunk %d, %s after connect: end of stream that neither side caused: %v", i, time.Since(t0).Round(time.Millisecond), err))
						return
					}
				}
				if !bytes.Equal(buf[:got], msg) {
					fail("tunnel-bytes-differ", fmt.Sprintf("chunk %d echoed as %q", i, buf[:got]))
					return
				}
				time.Sleep(400 * time.Millisecond)
			}
		}(p)
	}
	wg.Wait()
	return n, fails
}

func writeSelfSigned(dir string) error {
	key, err := ecdsa.GenerateKey(elliptic.P256(), rand.Reader)
	if err != nil {
		return err
	}
	tmpl := &x509.Certificate{
		SerialNumber: big.NewInt(1), Subject: pkix.Name{CommonName: "verif"},
		NotBefore: time.Now().Add(-time.Hour), NotAfter: time.Now().Add(24 * time.Hour),
		KeyUsage: x509.KeyUsageDigitalSignature | x509.KeyUsageCertSign, ExtKeyUsage: []x509.ExtKeyUsage{x509.ExtKeyUsageServerAuth, x509.ExtKeyUsageClientAuth},
		IsCA: true, BasicConstraintsValid: true, IPAddresses: []net.IP{net.ParseIP("127.0.0.1")}, DNSNames: []string{"localhost"},
	}
	der, err := x509.CreateCertificate(rand.Reader, tmpl, tmpl, &key.PublicKey, key)
	if err != nil {
		return err
	}
	kb, err := x509.MarshalECPrivateKey(key)
	if err != nil {
		return err
	}
	if err := os.WriteFile(filepath.Join(dir, "cert.pem"), pem.EncodeToMemory(&pem.Block{Type: "CERTIFICATE", Bytes: der}), 0o600); err != nil {
		return err
	}
	return os.WriteFile(filepath.Join(dir, "key.pem"), pem.EncodeToMemory(&pem.Block{Type: "EC PRIVATE KEY", Bytes: kb}), 0o600)
}

func firstDiff(a, b []byte) int {
	for i := 0; i < len(a) && i < len(b); i++ {
		if a[i] != b[i] {
			return i
		}
	}
	if len(a) < len(b) {
		return len(a)
	}
	return len(b)
}

func init() {
	register("C07", func(args []string) int {
		run := evid.NewRun("C07", "exploration")
		evals, nontrivial := adapterGrid(run, run.Thorough())
		fmt.Printf("  C07 adapter grid: runs=%d\n", evals)
		// long-lived tunnels on their own clusters (plaintext and TLS), alongside the grid
		tlsDir, err := os.MkdirTemp("", "verif-c07-tls")
		if err != nil {
			evid.Fatal("tmp: %v", err)
		}
		defer os.RemoveAll(tlsDir)
		if err := writeSelfSigned(tlsDir); err != nil {
			evid.Fatal("self-signed certificate: %v", err)
		}
		type llRes struct {
			n     int
			fails [][2]string
		}
		llCh := make(chan llRes, 2)
		for _, world := range []string{"plaintext", "tls"} {
			go func(world string) {
				dir := ""
				if world == "tls" {
					dir = tlsDir
				}
				// proxy.timeout 2s: every tunnel here outlives it
				lw := newTunnelWorldCfg(dir, 2*time.Second)
				defer lw.close()
				var extra [][2]string
				var emu sync.Mutex
				addExtra := func(f [2]string) { emu.Lock(); extra = append(extra, f); emu.Unlock() }
				extraN := 0
				var ewg sync.WaitGroup
				if world == "plaintext" {
					// raw handshakes on the TCP route whose Connection header is a token
					// list, entering at the node that has to forward
					for _, conn := range []string{"keep-alive, Upgrade", "Upgrade, keep-alive", "upgrade"} {
						extraN++
						ewg.Add(1)
						go func(conn string) {
							defer ewg.Done()
							if msg := rawTunnelStaysOpen(lw.nodes[0].ProxyAddr(), "t1", conn, 5*time.Second); msg != "" {
								addExtra([2]string{"long-lived-tunnel-broken", "handshake with Connection: " + conn + " through the forwarding node (proxy.timeout 2s): " + msg})
							}
						}(conn)
					}
					// the dialer writes and closes; the application behind the listener
					// drains what is buffered only slowly: every byte still arrives,
					// then end-of-stream
					extraN++
					ewg.Add(1)
					go func() {
						defer ewg.Done()
						if msg := slowReaderAfterClose(lw); msg != "" {
							addExtra([2]string{"tunnel-bytes-differ", msg})
						}
					}()
				}
				// a listener that stops accepting (go-away) keeps its established
				// tunnels, whoever dials the endpoint afterwards
				for entry := 0; entry < 2; entry++ {
					extraN++
					ewg.Add(1)
					go func(entry int) {
						defer ewg.Done()
						if msg := drainingListenerKeepsTunnels(lw, entry, fmt.Sprintf("t5-%d", entry)); msg != "" {
							addExtra([2]string{"established-tunnel-broken-by-drain", fmt.Sprintf("%s world, dialer enters at node %d: %s", world, entry, msg)})
						}
					}(entry)
				}
				n, fails := lw.longLived(world, 6500*time.Millisecond)
				ewg.Wait()
				llCh <- llRes{n + extraN, append(fails, extra...)}
			}(world)
		}
		w := newTunnelWorld()
		wt := newTunnelWorldTLS(tlsDir)
		sizes := []int{1, 3, 65537, 300 * 1024, 600 * 1024}
		tn := 0
		for _, p := range tunnelPaths {
			// the TLS cluster: the same paths, two sizes
			for _, sz := range []int{3, 65537} {
				for _, closer := range []string{"client", "upstream"} {
					c := tunnelCase{Path: p, Size: sz, Closer: closer, TLS: true}
					if run.Violations() >= 3 {
						continue
					}
					sig, msg := wt.run(c)
					if sig == "tunnel-open-failed" {
						e4.WaitAllActive(wt.nodes, 30*time.Second)
						sig, msg = wt.run(c)
					}
					tn++
					if sig != "" {
						run.Violation("C07", sig, msg, map[string]any{"engine": "E4-C07", "case": c})
					}
				}
			}
			// a service that only sends; the client closes first. Only where piko
			// itself owns the connection to the service (agent TCP proxy, client
			// forwarder): there the close must release that leg whatever the service
			// does. A service that is the yamux end itself sees end-of-stream when
			// it reads and decides for itself when to close.
			// the upstream end speaks first (SMTP/SSH-style greeting): it must reach
			// a client that has not written anything yet, on every path
			for _, closer := range []string{"client", "upstream"} {
				c := tunnelCase{Path: p, Size: 3, Closer: closer, Greet: true}
				if run.Violations() < 3 {
					sig, msg := w.run(c)
					if sig == "tunnel-open-failed" {
						e4.WaitAllActive(w.nodes, 30*time.Second)
						sig, msg = w.run(c)
					}
					tn++
					if sig != "" {
						run.Violation("C07", sig, msg, map[string]any{"engine": "E4-C07", "case": c})
					}
				}
			}
			if p == "agent-tcpproxy" || p == "client-forwarder" {
				c := tunnelCase{Path: p, Size: 65537, Closer: "client-while-upstream-streams"}
				if run.Violations() < 3 {
					sig, msg := w.run(c)
					if sig == "tunnel-open-failed" {
						e4.WaitAllActive(w.nodes, 30*time.Second)
						sig, msg = w.run(c)
					}
					tn++
					if sig != "" {
						run.Violation("C07", sig, msg, map[string]any{"engine": "E4-C07", "case": c})
					}
				}
			}
			for _, sz := range sizes {
				for _, empty := range []bool{false, true} {
					for _, closer := range []string{"client", "upstream"} {
						c := tunnelCase{Path: p, Size: sz, Empty: empty, Closer: closer}
						if run.Violations() >= 3 {
							continue
						}
						sig, msg := w.run(c)
						if sig != "" && (sig == "tunnel-open-failed") {
							e4.WaitAllActive(w.nodes, 30*time.Second)
							sig, msg = w.run(c)
						}
						tn++
						if tn%9 == 1 {
							run.Sample(c)
						}
						if sig != "" {
							run.Violation("C07", sig, msg, map[string]any{"engine": "E4-C07", "case": c})
						}
					}
				}
			}
		}
		w.close()
		wt.close()
		for i := 0; i < 2; i++ {
			r := <-llCh
			tn += r.n
			for _, f := range r.fails {
				run.Violation("C07", f[0], f[1], map[string]any{"engine": "E4-C07", "long_lived": f[1]})
			}
		}
		fmt.Printf("  C07 tunnels: cases=%d\n", tn)
		run.Set("evaluations", evals+tn)
		run.Set("distinct_nontrivial", nontrivial+tn)
		run.Set("rule", "adapter: payload of n distinct bytes x every composition into messages x every placement of up to two empty messages x 8 read-buffer patterns x transport read limits {1,2,5,unlimited}, directions alternating on one connection, plus text message / ping / close frame / abrupt end; non-trivial = more than one message, an empty message or a fragmenting transport. tunnels: 5 paths (dialer local, dialer forwarded, forward proxy, agent TCP proxy, client forwarder) x sizes {1,3,64KiB+1,300KiB,600KiB (two single writes of 300KiB)} x empty write between x closer {client, upstream}, the upstream end speaking first (greeting on accept, read by a client that has not written yet) x 5 paths x closer, plus (agent TCP proxy, client forwarder) a send-only local service whose tunnel the client closes: the leg to the service is released; the same paths on a cluster whose proxy ports and node-to-node forwarding use TLS x sizes {3,64KiB+1} x closer; one long-lived tunnel per path on a plaintext and a TLS cluster, used every 400ms for 6.5s")
		run.Set("exhaustive", true)
		run.Assume("tunnel half: goroutine schedules inside yamux/gorilla/net are free-running")
		return run.Finish()
	})
	replayers["E3-C07"] = func(path string) int {
		var doc struct {
			Replay struct {
				Case adapterCase `json:"case"`
			} `json:"replay"`
		}
		readJSON(path, &doc)
		for i := 0; i < 2; i++ {
			p, err := newWSPair()
			if err != nil {
				evid.Fatal("%v", err)
			}
			fmt.Println(runAdapter(p, doc.Replay.Case))
			p.close()
		}
		return 0
	}
	replayers["E4-C07"] = func(path string) int {
		var doc struct {
			Replay struct {
				Case tunnelCase `json:"case"`
			} `json:"replay"`
		}
		readJSON(path, &doc)
		w := newTunnelWorld()
		defer w.close()
		for i := 0; i < 2; i++ {
			fmt.Println(w.run(doc.Replay.Case))
		}
		return 0
	}
	_ = io.EOF
}
