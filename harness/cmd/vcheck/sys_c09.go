package main

import (
	"context"
	"fmt"
	"io"
	"net"
	"net/http"
	"os"
	"strings"
	"sync"
	"sync/atomic"
	"time"

	"github.com/gorilla/websocket"

	"github.com/andydunstall/piko/pkg/auth"
	"github.com/andydunstall/piko/server/cluster"
	"github.com/andydunstall/piko/server/config"
	"verifharness/internal/e4"
	"verifharness/internal/evid"
)

// C09: protected ports run no route without a valid token.

type presentation struct {
	Name   string
	Valid  bool // the token T is what the server must look at
	Header func(tok string) map[string]string
}

func presentations() []presentation {
	return []presentation{
		{"authorization", true, func(t string) map[string]string { return map[string]string{"Authorization": "Bearer " + t} }},
		{"x-piko-authorization", true, func(t string) map[string]string { return map[string]string{"x-piko-authorization": "Bearer " + t} }},
		{"x-piko-valid+authorization-garbage", true, func(t string) map[string]string {
			return map[string]string{"x-piko-authorization": "Bearer " + t, "Authorization": "Bearer garbage"}
		}},
		{"x-piko-garbage+authorization-valid", false, func(t string) map[string]string {
			return map[string]string{"x-piko-authorization": "Bearer garbage", "Authorization": "Bearer " + t}
		}},
		{"lowercase-bearer", false, func(t string) map[string]string { return map[string]string{"Authorization": "bearer " + t} }},
		{"basic", false, func(t string) map[string]string { return map[string]string{"Authorization": "Basic " + t} }},
		{"no-space", false, func(t string) map[string]string { return map[string]string{"Authorization": "Bearer" + t} }},
		{"token-only", false, func(t string) map[string]string { return map[string]string{"Authorization": t} }},
		{"none", false, func(t string) map[string]string { return map[string]string{} }},
		// piko's inter-node headers are client-settable: they buy nothing
		{"none+forward-marker", false, func(t string) map[string]string { return map[string]string{"x-piko-forward": "true"} }},
		{"basic+forward-marker", false, func(t string) map[string]string {
			return map[string]string{"Authorization": "Basic " + t, "x-piko-forward": "true"}
		}},
		{"authorization+forward-marker", true, func(t string) map[string]string {
			return map[string]string{"Authorization": "Bearer " + t, "x-piko-forward": "true"}
		}},
		// no tenants are configured anywhere here: naming one is refused, and the
		// refusal really stops the request (sentinel untouched)
		{"authorization+unknown-tenant", false, func(t string) map[string]string {
			return map[string]string{"Authorization": "Bearer " + t, "x-piko-tenant-id": "t9"}
		}},
	}
}

type c09Probe struct {
	Config  e4.KeyConfig  `json:"config"`
	Port    string        `json:"port"`
	Method  string        `json:"method"`
	Path    string        `json:"path"`
	Token   e4.TokenDesc  `json:"token"`
	Present string        `json:"presentation"`
}

// vacuity bookkeeping: configurations under which the plainly valid token was
// refused, and the number of accepted probes overall
var (
	c09ValidRefused = map[string]string{}
	c09Accepted     int
)

var algs = []string{"HS256", "HS384", "HS512", "RS256", "RS384", "RS512", "ES256", "ES384", "ES512", "PS256", "none"}

func c09Tokens(kc e4.KeyConfig, full bool) []e4.TokenDesc {
	var out []e4.TokenDesc
	base := e4.ValidFor(kc)
	// A: algorithm x signing key x tampering, valid claims
	for _, a := range algs {
		for _, k := range []string{"configured", "other", "pubpem-as-hmac", "empty"} {
			if (k == "pubpem-as-hmac" || k == "empty") && !strings.HasPrefix(a, "HS") {
				continue
			}
			for _, t := range []string{"none", "payload", "signature", "alg-swap", "drop-segment", "empty"} {
				if !full && t != "none" && k != "configured" {
					continue
				}
				d := base
				d.Alg, d.Key, d.Tamper = a, k, t
				out = append(out, d)
			}
		}
	}
	// B: claims cross product for every algorithm of a configured family
	for _, a := range algs {
		d0 := base
		d0.Alg = a
		if !d0.Expected(kc) {
			continue
		}
		for _, exp := range []string{"absent", "future", "past"} {
			for _, nbf := range []string{"absent", "past", "future"} {
				for _, aud := range []string{"absent", "match", "other", "list"} {
					for _, iss := range []string{"absent", "match", "other"} {
						if !full && a != base.Alg && (exp != "future" || nbf != "absent") {
							continue
						}
						d := d0
						d.Exp, d.Nbf, d.Aud, d.Iss = exp, nbf, aud, iss
						out = append(out, d)
					}
				}
			}
		}
	}
	return out
}

type c09Node struct {
	kc    e4.KeyConfig
	node  *e4.FullNode
	ln    *e4.StampListener
	dir   string
	valid string

	ghostLn   net.Listener
	ghostHits atomic.Int64
}

func (n *c09Node) sentinelCount() int64 {
	c := n.ghostHits.Load()
	if n.ln != nil {
		c += n.ln.Served.Load()
	}
	return c
}

func startC09Node(kc e4.KeyConfig) *c09Node {
	return startC09NodeWith(kc, nil, e4.ValidFor(kc).Mint())
}

// startC09NodeWith: perPort, when set, replaces the same-auth-on-every-port
// configuration; listenTok is the token the sentinel listener attaches with.
func startC09NodeWith(kc e4.KeyConfig, perPort func(c *config.Config), listenTok string) *c09Node {
	dir, err := os.MkdirTemp("", "verif-c09")
	if err != nil {
		evid.Fatal("tmp: %v", err)
	}
	jw := e4.WriteJWKS(dir)
	ac := kc.AuthConfig(jw)
	nd, err := e4.StartNode(nil, func(c *config.Config) {
		if perPort != nil {
			perPort(c)
			return
		}
		c.Proxy.Auth, c.Upstream.Auth, c.Admin.Auth = ac, ac, ac
	})
	if err != nil {
		evid.Fatal("start node %+v: %v", kc, err)
	}
	n := &c09Node{kc: kc, node: nd, dir: dir, valid: listenTok}
	// a sentinel upstream behind the proxy port, attached with a valid token.
	// If even that is refused (the property does not forbid over-rejection)
	// the must-refuse probes are still meaningful, only without a sentinel.
	ctx, cancel := context.WithTimeout(context.Background(), 10*time.Second)
	defer cancel()
	if l, err := e4.Listen(ctx, nd.UpstreamAddr(), "e1", "sentinel", e4.ListenOpts{Token: n.valid}); err == nil {
		n.ln = l
		e4.WaitFor(10*time.Second, func() bool { return nd.State().LocalNode().Endpoints["e1"] == 1 })
	}
	// a "ghost" node whose admin address is a hit counter: the admin port's
	// ?forward=<node> interception must not run before authentication either
	gl, err := net.Listen("tcp", "127.0.0.1:0")
	if err != nil {
		evid.Fatal("ghost admin: %v", err)
	}
	n.ghostLn = gl
	go func() {
		_ = http.Serve(gl, http.HandlerFunc(func(w http.ResponseWriter, r *http.Request) {
			n.ghostHits.Add(1)
			w.WriteHeader(200)
		}))
	}()
	nd.State().AddNode(&cluster.Node{ID: "ghost", Status: cluster.NodeStatusActive, ProxyAddr: "127.0.0.1:1", AdminAddr: gl.Addr().String()})
	return n
}

func (n *c09Node) close() {
	if n.ln != nil {
		_ = n.ln.Ln.Shutdown()
	}
	n.ghostLn.Close()
	n.node.Stop()
	os.RemoveAll(n.dir)
}

func (n *c09Node) addr(port string) string {
	switch port {
	case "proxy":
		return n.node.ProxyAddr()
	case "upstream":
		return n.node.UpstreamAddr()
	}
	return n.node.AdminAddr()
}

// probe sends one request; returns the status and whether the sentinel
// upstream served anything because of it.
func (n *c09Node) probe(p c09Probe, hdr map[string]string) (status int, sentinel bool, err error) {
	before := n.sentinelCount()
	path := p.Path
	ws := strings.Contains(path, "/_piko/v1/tcp/") || strings.Contains(path, "/piko/v1/upstream/")
	if ws {
		h := http.Header{}
		for k, v := range hdr {
			h.Set(k, v)
		}
		d := &websocket.Dialer{HandshakeTimeout: 20 * time.Second}
		c, resp, derr := d.Dial("ws://"+n.addr(p.Port)+path, h)
		if derr != nil {
			if resp == nil {
				return 0, false, derr
			}
			status = resp.StatusCode
		} else {
			status = 101
			c.Close()
		}
	} else {
		req, _ := http.NewRequest(p.Method, "http://"+n.addr(p.Port)+path, nil)
		if p.Port == "proxy" {
			req.Header.Set("x-piko-endpoint", "e1")
		}
		for k, v := range hdr {
			req.Header.Set(k, v)
		}
		resp, derr := e4.Client().Do(req)
		if derr != nil {
			return 0, false, derr
		}
		_, _ = io.Copy(io.Discard, resp.Body)
		resp.Body.Close()
		status = resp.StatusCode
	}
	// a served request increments the sentinel before the response returns
	return status, n.sentinelCount() != before, nil
}

func routePath(path, nodeID string) string {
	path = strings.ReplaceAll(path, ":endpointID", "e9")
	path = strings.ReplaceAll(path, ":id", nodeID)
	if strings.HasSuffix(path, "/debug/pprof/profile") || strings.HasSuffix(path, "/debug/pprof/trace") {
		path += "?seconds=1"
	}
	return path
}

func c09Config(run *evid.Run, kc e4.KeyConfig, full bool, mu *sync.Mutex, evals, nontrivial *int) {
	n := startC09Node(kc)
	defer n.close()
	record := func(p c09Probe, expected bool, status int, sentinel bool, err error) {
		mu.Lock()
		*evals++
		if !expected {
			*nontrivial++
		}
		if *evals%1499 == 1 {
			run.Sample(p)
		}
		mu.Unlock()
		desc := fmt.Sprintf("%+v: expected accept=%v, got status %d sentinel=%v err=%v", p, expected, status, sentinel, err)
		switch {
		case err != nil:
			run.Violation("C09", "request-failed", desc, map[string]any{"engine": "E4-C09", "probe": p})
		case expected && status == 401:
			// The property only says what must be refused. A refused valid
			// token is not a violation of it, but if the plainly valid token
			// is refused the exploration is vacuous.
			if fmt.Sprint(p.Token) == fmt.Sprint(e4.ValidFor(kc)) && (p.Present == "authorization" || p.Present == "x-piko-authorization") {
				mu.Lock()
				c09ValidRefused[kc.Name+"/"+kc.Audience+"/"+kc.Issuer] = desc
				mu.Unlock()
			}
		case expected && status != 401:
			mu.Lock()
			c09Accepted++
			mu.Unlock()
		case !expected && status != 401:
			run.Violation("C09", "route-ran-without-valid-token", desc, map[string]any{"engine": "E4-C09", "probe": p})
		case !expected && sentinel:
			run.Violation("C09", "upstream-reached-without-valid-token", desc, map[string]any{"engine": "E4-C09", "probe": p})
		}
	}
	pres := presentations()
	// 1. one main route per port x the token cross product (standard presentation)
	mains := []c09Probe{
		{Port: "proxy", Method: "GET", Path: "/anything"},
		{Port: "proxy", Method: "GET", Path: "/_piko/v1/tcp/e1"},
		{Port: "upstream", Method: "GET", Path: "/piko/v1/upstream/e9"},
		{Port: "admin", Method: "GET", Path: "/status/cluster/nodes"},
	}
	toks := c09Tokens(kc, full)
	for _, d := range toks {
		tok := d.Mint()
		for _, m := range mains {
			p := m
			p.Config, p.Token, p.Present = kc, d, "authorization"
			st, sen, err := n.probe(p, pres[0].Header(tok))
			record(p, d.Expected(kc), st, sen, err)
		}
	}
	// 2. presentations x {valid, wrong key} on the main routes
	valid := e4.ValidFor(kc)
	wrong := valid
	wrong.Key = "other"
	for _, pr := range pres {
		for _, d := range []e4.TokenDesc{valid, wrong} {
			tok := d.Mint()
			for _, m := range mains {
				p := m
				p.Config, p.Token, p.Present = kc, d, pr.Name
				st, sen, err := n.probe(p, pr.Header(tok))
				record(p, pr.Valid && d.Expected(kc), st, sen, err)
			}
		}
	}
	// 3. every registered route of every port (+ an unregistered path) x one
	// representative per rejection class + the valid token
	reps := []e4.TokenDesc{valid, wrong}
	for _, mod := range []func(d *e4.TokenDesc){
		func(d *e4.TokenDesc) { d.Alg = "none" },
		func(d *e4.TokenDesc) { d.Tamper = "signature" },
		func(d *e4.TokenDesc) { d.Exp = "past" },
		func(d *e4.TokenDesc) { d.Nbf = "future" },
		func(d *e4.TokenDesc) { d.Tamper = "empty" },
	} {
		d := valid
		mod(&d)
		reps = append(reps, d)
	}
	routes := n.node.Srv.VRoutes()
	for port, rs := range routes {
		list := [][2]string{{"GET", "/verif/not-a-registered-path"}}
		for _, r := range rs {
			list = append(list, [2]string{r.Method, routePath(r.Path, n.node.ID)})
		}
		for _, r := range list {
			for _, d := range reps {
				p := c09Probe{Config: kc, Port: port, Method: r[0], Path: r[1], Token: d, Present: "authorization"}
				st, sen, err := n.probe(p, pres[0].Header(d.Mint()))
				record(p, d.Expected(kc), st, sen, err)
			}
			p := c09Probe{Config: kc, Port: port, Method: r[0], Path: r[1], Token: valid, Present: "none"}
			st, sen, err := n.probe(p, map[string]string{})
			record(p, false, st, sen, err)
			if port == "admin" {
				// admin forwarding to another node (?forward=<id>) is a route too
				sep := "?"
				if strings.Contains(r[1], "?") {
					sep = "&"
				}
				fp := r[1] + sep + "forward=ghost"
				for _, d := range []e4.TokenDesc{wrong, reps[2], reps[4]} {
					p := c09Probe{Config: kc, Port: port, Method: r[0], Path: fp, Token: d, Present: "authorization"}
					st, sen, err := n.probe(p, pres[0].Header(d.Mint()))
					record(p, false, st, sen, err)
				}
				p := c09Probe{Config: kc, Port: port, Method: r[0], Path: fp, Token: valid, Present: "none"}
				st, sen, err := n.probe(p, map[string]string{})
				record(p, false, st, sen, err)
			}
		}
	}
	mu.Lock()
	run.Add("routes_enumerated", func() int {
		t := 0
		for _, rs := range routes {
			t += len(rs) + 1
		}
		return t
	}())
	mu.Unlock()
}

// c09PerPort: the ports are configured independently: each port honours its
// own key only (and a port's key opens no other port).
func c09PerPort(run *evid.Run, mu *sync.Mutex, evals, nontrivial *int) {
	secrets := map[string]string{"P": "proxy-port-secret-aaaaaaaaaaaaaaaaaaaaaa", "U": "upstream-port-secret-bbbbbbbbbbbbbbbbbbb", "A": "admin-port-secret-cccccccccccccccccccccc"}
	type layout struct{ Proxy, Upstream, Admin string }
	layouts := []layout{{"P", "U", "A"}, {"", "", "A"}, {"P", "", ""}, {"", "U", ""}, {"P", "P", "A"}, {"", "U", "A"}, {"P", "", "A"}}
	tokFor := func(signer string) e4.TokenDesc {
		d := e4.TokenDesc{Alg: "HS256", Key: "configured", Tamper: "none", Exp: "future", Nbf: "absent", Aud: "absent", Iss: "absent", Secret: secrets[signer]}
		if signer == "empty" {
			d.Secret, d.Key = "", "empty"
		}
		return d
	}
	for _, lay := range layouts {
		name := fmt.Sprintf("per-port:proxy=%s,upstream=%s,admin=%s", lay.Proxy, lay.Upstream, lay.Admin)
		kc := e4.KeyConfig{Name: name}
		listenTok := ""
		if lay.Upstream != "" {
			listenTok = tokFor(lay.Upstream).Mint()
		}
		n := startC09NodeWith(kc, func(c *config.Config) {
			for _, pa := range []struct {
				a *auth.Config
				k string
			}{{&c.Proxy.Auth, lay.Proxy}, {&c.Upstream.Auth, lay.Upstream}, {&c.Admin.Auth, lay.Admin}} {
				if pa.k != "" {
					*pa.a = auth.Config{HMACSecretKey: secrets[pa.k]}
				}
			}
		}, listenTok)
		portKey := map[string]string{"proxy": lay.Proxy, "upstream": lay.Upstream, "admin": lay.Admin}
		probes := []c09Probe{
			{Port: "proxy", Method: "GET", Path: "/anything"},
			{Port: "proxy", Method: "GET", Path: "/_piko/v1/tcp/e1"},
			{Port: "upstream", Method: "GET", Path: "/piko/v1/upstream/e9"},
			{Port: "admin", Method: "GET", Path: "/status/cluster/nodes"},
			{Port: "admin", Method: "GET", Path: "/metrics"},
			{Port: "admin", Method: "GET", Path: "/status/cluster/nodes?forward=ghost"},
		}
		for _, pr := range probes {
			if portKey[pr.Port] == "" {
				continue // no authentication on this port: nothing must be refused
			}
			for _, signer := range []string{"P", "U", "A", "empty", "absent"} {
				d := tokFor(signer)
				p := pr
				p.Config, p.Token, p.Present = kc, d, "authorization"
				hdr := map[string]string{"Authorization": "Bearer " + d.Mint()}
				if signer == "absent" {
					hdr = map[string]string{}
					p.Present = "none"
				}
				expected := signer == portKey[pr.Port]
				st, sen, err := n.probe(p, hdr)
				mu.Lock()
				*evals++
				if !expected {
					*nontrivial++
				}
				mu.Unlock()
				desc := fmt.Sprintf("%s: %s %s on the %s port with a token signed by %q: status %d sentinel=%v err=%v", name, p.Method, p.Path, p.Port, signer, st, sen, err)
				switch {
				case err != nil:
					run.Violation("C09", "request-failed", desc, map[string]any{"engine": "E4-C09", "probe": p})
				case expected && st != 401:
					mu.Lock()
					c09Accepted++
					mu.Unlock()
				case !expected && st != 401:
					run.Violation("C09", "route-ran-with-another-ports-key", desc, map[string]any{"engine": "E4-C09", "probe": p})
				case !expected && sen:
					run.Violation("C09", "upstream-reached-without-valid-token", desc, map[string]any{"engine": "E4-C09", "probe": p})
				}
			}
		}
		n.close()
	}
}

func c09Configs(full bool) []e4.KeyConfig {
	names := []string{"hmac", "rsa", "ecdsa", "jwks", "hmac+rsa", "hmac+rsa+ecdsa"}
	var out []e4.KeyConfig
	for i, n := range names {
		for j, ai := range [][2]string{{"", ""}, {e4.TheAudience, ""}, {"", e4.TheIssuer}, {e4.TheAudience, e4.TheIssuer}} {
			if !full && j != i%4 {
				continue
			}
			out = append(out, e4.KeyConfig{Name: n, Audience: ai[0], Issuer: ai[1]})
		}
	}
	return out
}

func init() {
	register("C09", func(args []string) int {
		run := evid.NewRun("C09", "exploration")
		e4.Keys()
		var mu sync.Mutex
		evals, nontrivial := 0, 0
		cfgs := c09Configs(run.Thorough())
		sem := make(chan struct{}, 6)
		var wg sync.WaitGroup
		for _, kc := range cfgs {
			wg.Add(1)
			sem <- struct{}{}
			go func(kc e4.KeyConfig) {
				defer wg.Done()
				defer func() { <-sem }()
				c09Config(run, kc, run.Thorough(), &mu, &evals, &nontrivial)
			}(kc)
		}
		wg.Wait()
		replayDone := make(chan struct{})
		go func() { c09Replay(run, &mu, &evals, &nontrivial); close(replayDone) }()
		rotateDone := make(chan struct{})
		go func() { c09Rotate(run, &mu, &evals, &nontrivial); close(rotateDone) }()
		c09PerPort(run, &mu, &evals, &nontrivial)
		<-replayDone
		<-rotateDone
		if c09RotateAccepted == 0 && run.Violations() == 0 {
			evid.Fatal("vacuous: no token of a currently published JWKS key was accepted in the rotation case")
		}
		run.Set("accepted_probes_in_the_jwks_rotation_case", c09RotateAccepted)
		if c09Accepted == 0 {
			evid.Fatal("vacuous: no probe at all was accepted (the plainly valid token is refused under every configuration: %v)", c09ValidRefused)
		}
		var vac []string
		for k := range c09ValidRefused {
			vac = append(vac, k)
		}
		run.Set("configurations_refusing_the_plain_valid_token", vac)
		run.Set("accepted_probes", c09Accepted)
		run.Set("evaluations", evals)
		run.Set("distinct_nontrivial", nontrivial)
		run.Set("key_configurations", len(cfgs))
		run.Set("rule", "per key configuration (real server.NewServer with the same auth on proxy, upstream and admin ports): (a) algorithm x signing key x tampering and the claims cross product (exp x nbf x aud x iss) on one main route per port, (b) 12 header presentations (incl. a client-set x-piko-forward marker) x {valid, wrong-key}, (c) every route registered on the live gin engines (+ an unregistered path) x one token per rejection class, (d) 7 layouts of independent per-port keys x main routes x token signed by {proxy key, upstream key, admin key, empty key, none}, (e) a 2s token accepted while fresh and presented again after its expiry, {tenants, no tenants} x disconnect-on-expiry {on, off}, (f) a remote JWKS endpoint (cache ttl 300ms, timeout {unset, 5s}) rotated {A} -> {A,B} -> {B} -> {A}: after each rotation tokens of a key no longer published are presented on all three ports; non-trivial = probes that must be refused (401, sentinel upstream untouched)")
		run.Set("exhaustive", true)
		run.Assume("gin's trailing-slash redirect is not in the alphabet (a 301 from the router, no handler runs)")
		fmt.Printf("  C09: configurations=%d probes=%d must-refuse=%d\n", len(cfgs), evals, nontrivial)
		return run.Finish()
	})
	replayers["E4-C09"] = func(path string) int {
		var doc struct {
			Replay struct {
				Probe c09Probe `json:"probe"`
			} `json:"replay"`
		}
		readJSON(path, &doc)
		p := doc.Replay.Probe
		n := startC09Node(p.Config)
		defer n.close()
		for _, pr := range presentations() {
			if pr.Name == p.Present {
				st, sen, err := n.probe(p, pr.Header(p.Token.Mint()))
				fmt.Printf("status=%d sentinel=%v err=%v expected accept=%v\n", st, sen, err, pr.Valid && p.Token.Expected(p.Config))
			}
		}
		return 0
	}
}
