package main

import (
	"fmt"
	"net"
	"time"

	"github.com/andydunstall/piko/pkg/gossip"
	"verifharness/internal/evid"
)

// Stream peers that stall: every real stream request of the corpus x every
// cut point class (nothing sent, half sent, sent completely) x {the peer
// never reads the answer, the peer reads it} over an unbuffered transport
// (net.Pipe: a write blocks until it is read). The handler must return within
// the stream timeout in every case - nothing may keep it (and the copy of the
// node's state it is sending) alive for ever.
func c13Stalls(run *evid.Run) (cases int) {
	_, streams := buildCorpus()
	const timeout = 300 * time.Millisecond
	for si, req := range streams {
		for _, cut := range []string{"nothing", "half", "all"} {
			for _, reads := range []bool{false, true} {
				cases++
				st := gossip.VNewClusterState("nR", "10.0.0.2:7000", nopFD{}, hostileMetrics, nopWatcher{})
				for i := 0; i < 40; i++ {
					st.UpsertLocal(fmt.Sprintf("key-%02d", i), "some value that makes the answer larger than a few bytes")
				}
				sl := gossip.VNewStreamListenerTimeout(nil, st, hostileMetrics, timeout)
				srv, cli := net.Pipe()
				done := make(chan error, 1)
				go func() { done <- sl.VHandleConn(srv) }()
				n := map[string]int{"nothing": 0, "half": len(req) / 2, "all": len(req)}[cut]
				go func() {
					_ = cli.SetWriteDeadline(time.Now().Add(5 * time.Second))
					_, _ = cli.Write(req[:n])
					if reads {
						buf := make([]byte, 4096)
						for {
							if _, err := cli.Read(buf); err != nil {
								return
							}
						}
					}
				}()
				select {
				case <-done:
				case <-time.After(timeout + 10*time.Second):
					run.Violation("C13", "stream-handler-hangs", fmt.Sprintf("stream request #%d (%d bytes), peer sent %s of it and %s: the handler has not returned 10s after its %s timeout", si, len(req), cut, map[bool]string{true: "reads the answer", false: "never reads the answer"}[reads], timeout), map[string]any{"engine": "E3-C13-stall", "stream": si, "cut": cut, "reads": reads})
				}
				cli.Close()
			}
		}
	}
	return cases
}
