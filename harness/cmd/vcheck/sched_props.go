package main

import (
	"encoding/json"
	"fmt"
	"os"
	"strings"
	"sync"
	"time"

	"verifharness/internal/evid"
)

func pick(names ...string) []schedProgram {
	var out []schedProgram
	for _, p := range allSchedPrograms() {
		for _, n := range names {
			if strings.HasPrefix(p.Name, n) {
				out = append(out, p)
			}
		}
	}
	return out
}

// runFree executes the same thread bodies as real goroutines (no scheduler);
// used only by the -race build.
func runFree(p schedProgram, iters int) (failures []string) {
	for i := 0; i < iters; i++ {
		bodies, check := p.Build()
		var wg sync.WaitGroup
		start := make(chan struct{})
		for _, b := range bodies {
			wg.Add(1)
			go func(b func()) {
				defer wg.Done()
				<-start
				b()
			}(b)
		}
		close(start)
		done := make(chan struct{})
		go func() { wg.Wait(); close(done) }()
		select {
		case <-done:
		case <-time.After(60 * time.Second):
			return append(failures, "free-running execution did not finish within 60s (deadlock?)")
		}
		_ = check
	}
	return failures
}

// racePass folds the result of the separate free-running -race run (done by
// the check script with a second, race-instrumented binary) into the evidence.
func racePass(run *evid.Run, prop string) {
	p := os.Getenv("VERIF_RACE_JSON")
	if p == "" {
		run.Assume("race pass not run in this invocation")
		return
	}
	var rr map[string]any
	b, err := os.ReadFile(p)
	if err != nil || json.Unmarshal(b, &rr) != nil {
		evid.Fatal("race pass produced no result (%v)", err)
	}
	run.Set("race_pass_sampling", rr)
	if n, _ := rr["races"].(float64); n > 0 {
		run.Violation(prop, "data-race", fmt.Sprintf("the race detector reported %v data race(s) in the free-running pass: %v", n, rr["first_report"]), map[string]any{"engine": "race", "log": rr["first_report"]})
	} else if x, _ := rr["exit"].(float64); x != 0 {
		run.Violation(prop, "free-running-failure", fmt.Sprintf("the free-running pass failed (exit %v): %v", x, rr["tail"]), map[string]any{"engine": "race", "log": rr["tail"]})
	}
}

func init() {
	register("C05", func(args []string) int {
		run := evid.NewRun("C05", "model_checking")
		res := runMgr(run, c05Sys(run.Thorough()), 600)
		// many endpoints on one node, told to peers in full (seq_c05_bulk.go)
		run.Set("bulk_cases", c05Bulk(run))
		bound := 2
		if run.Thorough() {
			bound = 3
		}
		execs, points, complete := 0, 0, true
		if run.Violations() == 0 {
			execs, points, complete = runSched(run, "C05", pick("A-", "D-"), bound, 900, func(sig string) bool {
				return strings.Contains(sig, "advertised") || strings.Contains(sig, "registry") || sig == "panic" || sig == "deadlock" || strings.Contains(sig, "published")
			})
		}
		run.Set("states", res.States+execs)
		run.Set("transitions", res.Transitions+points)
		run.Set("sequential_states", res.States)
		run.Set("sequential_transitions", res.Transitions)
		run.Set("schedules", execs)
		run.Set("preemption_bound", bound)
		run.Set("traces_validated_against_impl", res.States+execs)
		run.Set("exhaustive", res.Exhaustive && complete)
		run.Set("explanation", "sequential: unbounded BFS over Add/Remove (duplicates, late and unknown removals) on the real manager + cluster.State + syncer + gossip local state, every reachable registry state visited; concurrent: every schedule of the thread programs up to the preemption bound at the real code's own lock acquisitions; oracle: registry == routing table == published gossip entries")
		return run.Finish()
	})
	register("C15", func(args []string) int {
		run := evid.NewRun("C15", "model_checking")
		res := runMgr(run, c15Sys(run.Thorough()), 600)
		// no starvation under churn: periodic connect/disconnect patterns (seq_c15_churn.go)
		run.Set("churn_patterns", c15Churn(run))
		bound := 2
		if run.Thorough() {
			bound = 3
		}
		execs, points, complete := 0, 0, true
		if run.Violations() == 0 {
			execs, points, complete = runSched(run, "C15", pick("A-", "C-", "D-", "E-"), bound, 900, func(sig string) bool {
				return strings.HasPrefix(sig, "select") || sig == "panic" || strings.Contains(sig, "routable")
			})
		}
		run.Set("states", res.States+execs)
		run.Set("transitions", res.Transitions+points)
		run.Set("sequential_states", res.States)
		run.Set("sequential_transitions", res.Transitions)
		run.Set("schedules", execs)
		run.Set("preemption_bound", bound)
		run.Set("traces_validated_against_impl", res.States+execs)
		run.Set("exhaustive", res.Exhaustive && complete)
		// concurrent selectors mutate the cursor: unsynchronised access is
		// invisible to the cooperative scheduler, so the free-running -race
		// pass of the same programs (sampling) is part of this check too
		racePass(run, "C15")
		run.Set("explanation", "sequential: unbounded BFS over Add/Remove/Select on the real LoadBalancedManager (state = balancer lists + cursors), validity of every Select result and, from every reachable state, 2n further selections whose every window of n must be a permutation of the members; concurrent: Select against Add/Remove/withdrawal/suspicion under every schedule up to the preemption bound, results checked for linearisability by brute force")
		return run.Finish()
	})
	register("C20", func(args []string) int {
		run := evid.NewRun("C20", "model_checking")
		bound := 2
		if run.Thorough() {
			bound = 3
		}
		execs, points, complete := runSched(run, "C20", allSchedPrograms(), bound, 1200, nil)
		run.Set("states", execs)
		run.Set("transitions", points)
		run.Set("schedules", execs)
		run.Set("preemption_bound", bound)
		run.Set("traces_validated_against_impl", execs)
		run.Set("exhaustive", complete)
		// separate free-running -race pass (sampling; only for the
		// "unsynchronised access" clause)
		racePass(run, "C20")
		run.Set("explanation", "every schedule of four thread programs (connect/disconnect, routing, incoming gossip datagrams, liveness/expiry/compaction, status reads) on one real node core, with scheduling points at the real code's Mutex/RWMutex acquisitions (sync -> vsync import rewrite), up to the stated preemption bound; deadlock = no enabled thread, panics caught, step horizon for livelock, quiescent cross-component consistency; plus a separate free-running -race pass of the same thread bodies (sampling, labelled as such)")
		return run.Finish()
	})
	register("C20-race", func(args []string) int {
		iters := 300
		if evid.Tier() == "thorough" {
			iters = 3000
		}
		total := 0
		var fails []string
		for _, p := range allSchedPrograms() {
			fails = append(fails, runFree(p, iters)...)
			total += iters
		}
		// the receive loop of real gossip instances on loopback sockets, under
		// the race detector too
		rn, rfails := realNodeScenarios()
		total += rn
		for _, f := range rfails {
			fails = append(fails, f[0]+": "+f[1])
		}
		fmt.Printf("race pass: %d free-running executions, failures=%v\n", total, fails)
		if len(fails) > 0 {
			return 3
		}
		return 0
	})
}
