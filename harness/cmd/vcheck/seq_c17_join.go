package main

import (
	"fmt"

	"verifharness/internal/evid"
	"verifharness/internal/gw"
)

// C17, observers that synchronise over the join stream: the observer already
// has published state of its own when it joins (its own entries travel in the
// same exchange), the owner's history ends in empty values, re-created keys and
// tombstones. Real Gossip.join / streamListener on the in-memory stream.
func c17JoinStream(run *evid.Run) (cases int) {
	type op struct{ kind, k, v string }
	histories := [][]op{
		{{"up", "a", "1"}, {"up", "a", ""}},
		{{"up", "a", "1"}, {"del", "a", ""}, {"up", "a", ""}},
		{{"up", "b", "1"}, {"up", "a", ""}, {"up", "b", ""}},
		{{"up", "a", "1"}, {"up", "b", "1"}, {"del", "a", ""}},
		{{"up", "a", ""}, {"up", "b", "2"}, {"compact", "", ""}, {"up", "a", "3"}, {"up", "a", ""}},
	}
	observerOwn := [][]op{{}, {{"up", "c", "observer-value"}}, {{"up", "c", "x"}, {"up", "a", "observer-a"}, {"up", "b", "observer-b"}}}
	for hi, h := range histories {
		for oi, own := range observerOwn {
			cases++
			sc := gw.S10(1400, 99, 99, 0, -1)
			sc.Oracles = gw.OracleSet{}
			sc.Ops[0] = append(sc.Ops[0], gw.Event{Kind: "compact"})
			w := gw.NewWorld(sc, &gw.Stats{})
			ref := map[string]string{}
			for _, o := range own {
				w.Replay(gw.Event{Kind: o.kind, A: 1, K: o.k, V: o.v})
			}
			for _, o := range h {
				w.Replay(gw.Event{Kind: o.kind, A: 0, K: o.k, V: o.v})
				switch o.kind {
				case "up":
					ref[o.k] = o.v
				case "del":
					delete(ref, o.k)
				}
			}
			w.Replay(gw.Event{Kind: "join", A: 1, B: 0})
			ns, ok := w.Nodes()[1].State.Node("nX")
			desc := fmt.Sprintf("owner history #%d, observer with %d entries of its own joins the owner", hi, len(own))
			if !ok {
				run.Violation("C17", "observer-differs-from-owner", desc+": the observer does not know the owner after the join", map[string]any{"engine": "E3-C17-join", "history": hi, "observer": oi})
				continue
			}
			if got, want := mapStr(live(ns)), mapStr(ref); got != want {
				run.Violation("C17", "observer-differs-from-owner", fmt.Sprintf("%s: the observer shows the owner's live keys as %s, the owner wrote %s", desc, got, want), map[string]any{"engine": "E3-C17-join", "history": hi, "observer": oi})
			}
		}
	}
	return cases
}
