package main

import (
	"fmt"
	"net"
	"net/http"
	"sync"
	"time"

	"github.com/andydunstall/yamux"

	"github.com/andydunstall/piko/server/config"
	"github.com/andydunstall/piko/server/upstream"
	"verifharness/internal/e4"
)

// A connected upstream whose connection stalls for a while (writes block
// longer than the yamux connection write timeout) and then recovers: the
// request that hit the stall may be answered 502, the requests after the
// recovery must reach the upstream again - it never disconnected and never
// said it was going away.

type stallConn struct {
	net.Conn
	mu     sync.Mutex
	cond   *sync.Cond
	paused bool
}

func newStallConn(c net.Conn) *stallConn {
	s := &stallConn{Conn: c}
	s.cond = sync.NewCond(&s.mu)
	return s
}

func (s *stallConn) pause(p bool) {
	s.mu.Lock()
	s.paused = p
	s.mu.Unlock()
	s.cond.Broadcast()
}

func (s *stallConn) Write(b []byte) (int, error) {
	s.mu.Lock()
	for s.paused {
		s.cond.Wait()
	}
	s.mu.Unlock()
	return s.Conn.Write(b)
}

func c08Stall(report func(kind, sig, msg string)) {
	ln, err := net.Listen("tcp", "127.0.0.1:0")
	if err != nil {
		report("stalled upstream connection", "harness", err.Error())
		return
	}
	defer ln.Close()
	acc := make(chan net.Conn, 1)
	go func() {
		c, err := ln.Accept()
		if err == nil {
			acc <- c
		}
	}()
	cliSide, err := net.Dial("tcp", ln.Addr().String())
	if err != nil {
		report("stalled upstream connection", "harness", err.Error())
		return
	}
	srvSide := newStallConn(<-acc)
	mux := func() *yamux.Config {
		c := yamux.DefaultConfig()
		c.LogOutput = discardWriter{}
		c.ConnectionWriteTimeout = 300 * time.Millisecond
		c.EnableKeepAlive = false
		return c
	}
	srvSess, err := yamux.Server(srvSide, mux())
	if err != nil {
		report("stalled upstream connection", "harness", err.Error())
		return
	}
	defer srvSess.Close()
	cliSess, err := yamux.Client(cliSide, mux())
	if err != nil {
		report("stalled upstream connection", "harness", err.Error())
		return
	}
	defer cliSess.Close()
	var served sync.Map
	go func() {
		_ = http.Serve(cliSess, http.HandlerFunc(func(w http.ResponseWriter, r *http.Request) {
			served.Store(r.URL.Path, true)
			w.Header().Set("X-Verif-Upstream", "stall")
			w.WriteHeader(200)
		}))
	}()
	cl := e4.NewCompCluster(1, func() config.ProxyConfig { pc := e4.DefaultProxyConfig(); pc.Timeout = 2 * time.Second; return pc }(), nil)
	defer cl.Close()
	cu := upstream.NewConnUpstream("e1", srvSess)
	cl.Nodes[0].Mgr.AddConn(cu)
	defer cl.Nodes[0].Mgr.RemoveConn(cu)
	get := func(path string) (int, error) {
		req, _ := http.NewRequest("GET", "http://"+cl.Nodes[0].Addr+path, nil)
		req.Header.Set("x-piko-endpoint", "e1")
		resp, err := e4.Client().Do(req)
		if err != nil {
			return 0, err
		}
		resp.Body.Close()
		return resp.StatusCode, nil
	}
	if st, err := get("/before"); err != nil || st != 200 {
		report("connected upstream before the stall", "wrong-gateway-status", fmt.Sprintf("got %d %v, want 200", st, err))
		return
	}
	report("connected upstream before the stall", "", "")
	srvSide.pause(true)
	st, err := get("/during")
	srvSide.pause(false)
	switch {
	case err != nil:
		report("request while the upstream connection is stalled", "no-response", err.Error())
	case st != 502 && st != 504 && st != 200:
		report("request while the upstream connection is stalled", "wrong-gateway-status", fmt.Sprintf("got %d, want 502/504", st))
	default:
		report("request while the upstream connection is stalled", "", "")
	}
	time.Sleep(100 * time.Millisecond)
	for i := 0; i < 3; i++ {
		path := fmt.Sprintf("/after-%d", i)
		st, err := get(path)
		_, reached := served.Load(path)
		kind := "request after the upstream connection recovered"
		switch {
		case err != nil:
			report(kind, "no-response", err.Error())
		case st != 200 || !reached:
			report(kind, "connected-upstream-not-reached", fmt.Sprintf("request %d after the stall: status %d, reached the upstream: %v; the upstream is connected and never sent go-away", i, st, reached))
		default:
			report(kind, "", "")
		}
	}
}

type discardWriter struct{}

func (discardWriter) Write(b []byte) (int, error) { return len(b), nil }
