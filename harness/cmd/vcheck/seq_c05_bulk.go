package main

import (
	"fmt"
	"strings"

	"github.com/andydunstall/piko/pkg/gossip"
	"verifharness/internal/evid"
)

// c05Bulk: a node with many endpoints (more than any fixed small number of
// entries per reply): n upstreams on n distinct endpoints connect through the
// real manager, a peer takes the node's state in complete exchanges until its
// digest equals the node's; then every second upstream disconnects and a
// second peer (and the first, catching up) do the same. What each peer is
// told equals the registry, endpoint by endpoint.
func c05Bulk(run *evid.Run) (cases int) {
	told := func(obs *gossip.VClusterState) map[string]int {
		out := map[string]int{}
		if ns, ok := obs.Node("local"); ok {
			for _, en := range ns.Entries {
				if strings.HasPrefix(en.Key, "endpoint:") && !en.Deleted {
					n := 0
					fmt.Sscanf(en.Value, "%d", &n)
					out[strings.TrimPrefix(en.Key, "endpoint:")] = n
				}
			}
		}
		return out
	}
	catchUp := func(st *mgrStack, obs *gossip.VClusterState) int {
		for r := 1; r <= 8; r++ {
			syncObserver(st.gs, obs)
			if ns, ok := obs.Node("local"); ok && ns.Version == st.gs.LocalNode().Version {
				return r
			}
		}
		return -1
	}
	for _, n := range []int{10, 70, 150, 400} {
		cases++
		var ups [][2]string
		for i := 0; i < n; i++ {
			ups = append(ups, [2]string{fmt.Sprintf("u%d", i), fmt.Sprintf("ep-%03d", i)})
		}
		st := newMgrStack(ups, nil)
		truth := map[string]int{}
		for _, u := range st.ups {
			st.mgr.AddConn(u)
			truth[u.ep]++
		}
		bad := func(sig, msg string) {
			run.Violation("C05", sig, fmt.Sprintf("%d upstreams on %d distinct endpoints: %s", n, n, msg), map[string]any{"engine": "E3-C05-bulk", "n": n})
		}
		if sig, msg := st.consistent(truth); sig != "" {
			bad(sig, msg)
			continue
		}
		first := gossip.VNewClusterState("nP", "10.0.0.9:7000", nopFD{}, sharedGossipMetrics, nopWatcher{})
		if catchUp(st, first) < 0 {
			bad("peer-never-caught-up", "a peer taking the node's state in complete exchanges does not reach the node's version in 8 exchanges")
			continue
		}
		if a, b := countsStr(truth), countsStr(told(first)); a != b {
			bad("peer-told-differently-from-registered", fmt.Sprintf("a peer that has caught up with the node is told %d endpoints, %d are registered (first difference: %s)", len(told(first)), len(truth), firstCountDiff(truth, told(first))))
			continue
		}
		for i, u := range st.ups {
			if i%2 == 1 {
				st.mgr.RemoveConn(u)
				truth[u.ep]--
				if truth[u.ep] == 0 {
					delete(truth, u.ep)
				}
			}
		}
		second := gossip.VNewClusterState("nQ", "10.0.0.8:7000", nopFD{}, sharedGossipMetrics, nopWatcher{})
		for name, obs := range map[string]*gossip.VClusterState{"a peer that already knew the node": first, "a new peer": second} {
			if catchUp(st, obs) < 0 {
				bad("peer-never-caught-up", name+" does not reach the node's version in 8 exchanges after half of the upstreams disconnected")
				continue
			}
			if a, b := countsStr(truth), countsStr(told(obs)); a != b {
				bad("peer-told-differently-from-registered", fmt.Sprintf("after half of the upstreams disconnected %s is told %d endpoints, %d are registered (first difference: %s)", name, len(told(obs)), len(truth), firstCountDiff(truth, told(obs))))
			}
		}
	}
	return
}

func firstCountDiff(a, b map[string]int) string {
	for k, v := range a {
		if b[k] != v {
			return fmt.Sprintf("%s registered %d, told %d", k, v, b[k])
		}
	}
	for k, v := range b {
		if a[k] != v {
			return fmt.Sprintf("%s registered %d, told %d", k, a[k], v)
		}
	}
	return ""
}
