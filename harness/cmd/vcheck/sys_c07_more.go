package main

import (
	"bytes"
	"context"
	"fmt"
	"io"
	"net"
	"net/url"
	"time"

	"github.com/andydunstall/piko/client"
	"verifharness/internal/e4"
)

// rawTunnelStaysOpen: a raw WebSocket handshake on the TCP route with the
// given Connection header value; the tunnel is held for `hold`, then one
// message is echoed through it.
func rawTunnelStaysOpen(addr, endpoint, connection string, hold time.Duration) string {
	resp, c, br, err := rawRequest(addr,
		"GET /_piko/v1/tcp/"+endpoint+" HTTP/1.1", "Host: piko.test", "Upgrade: websocket", "Connection: "+connection,
		"Sec-WebSocket-Key: dGhlIHNhbXBsZSBub25jZQ==", "Sec-WebSocket-Version: 13")
	if err != nil {
		return "handshake: " + err.Error()
	}
	defer c.Close()
	if resp.StatusCode != 101 {
		return fmt.Sprintf("handshake status %d", resp.StatusCode)
	}
	time.Sleep(hold)
	_ = c.SetDeadline(time.Now().Add(15 * time.Second))
	payload := []byte("still-there?")
	mask := []byte{3, 5, 7, 9}
	frame := []byte{0x82, 0x80 | byte(len(payload)), mask[0], mask[1], mask[2], mask[3]}
	for i, b := range payload {
		frame = append(frame, b^mask[i%4])
	}
	if _, err := c.Write(frame); err != nil {
		return fmt.Sprintf("write %s after the handshake: %v", hold, err)
	}
	var got []byte
	for len(got) < len(payload) {
		hdr := make([]byte, 2)
		if _, err := io.ReadFull(br, hdr); err != nil {
			return fmt.Sprintf("the tunnel was cut (read %s after the handshake: %v)", hold, err)
		}
		n := int(hdr[1] & 0x7f)
		if hdr[0]&0x0f == 0x8 || n >= 126 {
			return fmt.Sprintf("the tunnel was closed %s after the handshake (frame % x)", hold, hdr)
		}
		buf := make([]byte, n)
		if _, err := io.ReadFull(br, buf); err != nil {
			return "read: " + err.Error()
		}
		got = append(got, buf...)
	}
	if !bytes.Equal(got, payload) {
		return fmt.Sprintf("echo differs: %q", got)
	}
	return ""
}

// slowReaderAfterClose: a second harness-held upstream (endpoint "t4") whose
// application reads the first KiB, then nothing for 6.5s, then the rest. The
// dialer writes 200 KiB and closes at once. Every byte arrives, then
// end-of-stream.
func slowReaderAfterClose(w *tunnelWorld) string {
	const total = 200 * 1024
	type res struct {
		n   int
		err error
	}
	done := make(chan res, 1)
	raw, err := dialRawWith(w.nodes[1].UpstreamAddr(), "t4", "slow", "", func(c net.Conn) {
		defer c.Close()
		buf := make([]byte, 1024)
		n, err := io.ReadFull(c, buf)
		if err != nil {
			done <- res{n, err}
			return
		}
		time.Sleep(6500 * time.Millisecond)
		m, err := io.Copy(io.Discard, c)
		done <- res{n + int(m), err}
	})
	if err != nil {
		return "harness: " + err.Error()
	}
	defer raw.sess.Close()
	if !e4.WaitFor(20*time.Second, func() bool { return w.nodes[1].State().LocalNode().Endpoints["t4"] == 1 }) {
		return "harness: t4 not registered"
	}
	ctx, cancel := context.WithTimeout(context.Background(), 20*time.Second)
	defer cancel()
	conn, err := (&client.Dialer{URL: &url.URL{Scheme: "http", Host: w.nodes[1].ProxyAddr()}}).Dial(ctx, "t4")
	if err != nil {
		return "tunnel-open-failed: " + err.Error()
	}
	payload := bytes.Repeat([]byte("0123456789abcdef"), total/16)
	if _, err := conn.Write(payload); err != nil {
		conn.Close()
		return "write: " + err.Error()
	}
	conn.Close()
	select {
	case r := <-done:
		if r.n != total || r.err != nil {
			return fmt.Sprintf("the dialer wrote %d bytes and closed; the listener's application, which drains slowly, received %d of them and then %v instead of end-of-stream", total, r.n, r.err)
		}
	case <-time.After(40 * time.Second):
		return "the listener's application never saw end-of-stream"
	}
	return ""
}
