package main

import (
	"context"
	"fmt"
	"net/http"
	"strings"
	"sync"
	"time"

	"github.com/gorilla/websocket"

	"github.com/andydunstall/piko/pkg/auth"
	"github.com/andydunstall/piko/server/config"
	"verifharness/internal/e4"
	"verifharness/internal/evid"
)

// C10: tokens are confined to their endpoints and tenants.

var c10ClaimSets = [][]string{nil, {}, {"e1"}, {"e1", "e2"}, {"e1x"}, {"E1"}, {"e2"}, {""}, {" "}, {"", ""}, {"e2", ""}, {" e1"}}

func permitted(claims []string, ep string) bool {
	if len(claims) == 0 {
		return true
	}
	for _, c := range claims {
		if c == ep {
			return true
		}
	}
	return false
}

type c10Probe struct {
	Kind    string     `json:"kind"` // proxy | listen | tenant
	Claims  []string   `json:"claims"`
	Addr    c01Addr    `json:"addressing,omitempty"`
	Listen  string     `json:"listen_endpoint,omitempty"`
	Table   []string   `json:"tenant_table,omitempty"`
	Default bool       `json:"default_key_configured,omitempty"`
	SignedBy string    `json:"signed_by,omitempty"`
	Header  string     `json:"tenant_header,omitempty"`
}

func hmacNode(mut func(c *config.Config)) *e4.FullNode {
	nd, err := e4.StartNode(nil, func(c *config.Config) {
		ac := auth.Config{HMACSecretKey: string(e4.Keys().HMAC)}
		c.Proxy.Auth, c.Upstream.Auth = ac, ac
		if mut != nil {
			mut(c)
		}
	})
	if err != nil {
		evid.Fatal("start node: %v", err)
	}
	return nd
}

func c10Endpoints(run *evid.Run, evals, nontrivial *int, mu *sync.Mutex) {
	nd := hmacNode(nil)
	defer nd.Stop()
	open := e4.ValidFor(e4.KeyConfig{Name: "hmac"})
	var lns []*e4.StampListener
	for _, ep := range []string{"e1", "e2", "e1x"} {
		l, err := e4.Listen(context.Background(), nd.UpstreamAddr(), ep, "l-"+ep, e4.ListenOpts{Token: open.Mint()})
		if err != nil {
			evid.Fatal("listen %s: %v", ep, err)
		}
		lns = append(lns, l)
	}
	defer func() {
		for _, l := range lns {
			_ = l.Ln.Shutdown()
		}
	}()
	e4.WaitFor(10*time.Second, func() bool { return len(nd.State().LocalNode().Endpoints) == 3 })
	count := func(nontriv bool, p c10Probe) {
		mu.Lock()
		*evals++
		if nontriv {
			*nontrivial++
		}
		if *evals%97 == 1 {
			run.Sample(p)
		}
		mu.Unlock()
	}
	// proxy port: every claim set x every way of naming the target
	addrs := []c01Addr{
		{"host", "e1", ""}, {"host", "e2", ""}, {"header", "e1", ""}, {"header", "e2", ""},
		{"both", "e1", "e2"}, {"both", "e2", "e1"}, {"tcp", "e1", ""}, {"tcp", "e2", ""},
		{"header", "e1x", ""}, {"tcp", "e1x", ""}, {"host", "e1x", ""}, {"both", "e1x", "e1"}, {"both", "e1", "e1x"},
	}
	for _, cl := range c10ClaimSets {
		d := open
		d.Endpoints = cl
		tok := d.Mint()
		for _, hdr := range []string{"Authorization", "x-piko-authorization", "Authorization+forwarded", "Authorization+tenant"} {
			for _, a := range addrs {
				p := c10Probe{Kind: "proxy", Claims: cl, Addr: a, Header: hdr}
				ad := e4.Addressing{Mode: a.Mode, Endpoint: a.Endpoint, Other: a.Other, Token: "Bearer " + tok, TokenHdr: hdr}
				if hdr == "Authorization+forwarded" {
					// any client can set the inter-node marker: it must not buy anything
					ad.TokenHdr = "Authorization"
					ad.Forward = true
				}
				if hdr == "Authorization+tenant" {
					// the proxy port has no tenants: naming one is refused, whatever the token
					ad.TokenHdr = "Authorization"
					ad.Extra = map[string]string{"x-piko-tenant-id": "t9"}
				}
				servedBefore := int64(0)
				for _, l := range lns {
					servedBefore += l.Served.Load()
				}
				res := e4.Do(nd.ProxyAddr(), ad)
				want := permitted(cl, a.Endpoint) && hdr != "Authorization+tenant"
				if !want {
					// whatever status the client sees, a refused request reaches no upstream
					servedAfter := int64(0)
					for _, l := range lns {
						servedAfter += l.Served.Load()
					}
					if servedAfter != servedBefore {
						run.Violation("C10", "refused-request-reached-an-upstream", fmt.Sprintf("claims %v, %+v via %s -> %s, yet an upstream served it", cl, a, hdr, res), map[string]any{"engine": "E4-C10", "probe": p})
					}
				}
				count(!want || a.Mode == "both", p)
				ok := res.Status == 200 || res.Status == 101
				desc := fmt.Sprintf("claims %v, %+v via %s -> %s", cl, a, hdr, res)
				switch {
				case res.Err != "":
					run.Violation("C10", "request-failed", desc, map[string]any{"engine": "E4-C10", "probe": p})
				case ok && !permitted(cl, res.Endpoint):
					run.Violation("C10", "served-by-endpoint-outside-token", desc, map[string]any{"engine": "E4-C10", "probe": p})
				case ok && res.Endpoint != a.Endpoint:
					run.Violation("C10", "checked-endpoint-differs-from-routed", desc, map[string]any{"engine": "E4-C10", "probe": p})
				case !want && res.Status != 401:
					run.Violation("C10", "not-refused", desc, map[string]any{"engine": "E4-C10", "probe": p})
				case want && !ok:
					run.Violation("C10", "permitted-endpoint-refused", desc, map[string]any{"engine": "E4-C10", "probe": p})
				}
			}
		}
		// upstream port: listen on each endpoint with this token
		for _, ep := range []string{"e1", "e2", "e1x", "E1", "e"} {
			p := c10Probe{Kind: "listen", Claims: cl, Listen: ep}
			want := permitted(cl, ep)
			count(!want, p)
			h := http.Header{}
			h.Set("Authorization", "Bearer "+tok)
			dl := &websocket.Dialer{HandshakeTimeout: 20 * time.Second}
			before := nd.State().LocalNode().Endpoints[ep]
			c, resp, err := dl.Dial("ws://"+nd.UpstreamAddr()+"/piko/v1/upstream/"+ep, h)
			status := 0
			if resp != nil {
				status = resp.StatusCode
			}
			desc := fmt.Sprintf("listen on %s with claims %v -> status %d err %v", ep, cl, status, err)
			if err == nil {
				// registered under exactly that endpoint?
				reg := e4.WaitFor(10*time.Second, func() bool { return nd.State().LocalNode().Endpoints[ep] == before+1 })
				c.Close()
				e4.WaitFor(10*time.Second, func() bool { return nd.State().LocalNode().Endpoints[ep] == before })
				if !want {
					run.Violation("C10", "listen-outside-token", desc, map[string]any{"engine": "E4-C10", "probe": p})
				} else if !reg {
					run.Violation("C10", "listener-registered-under-other-endpoint", desc+fmt.Sprintf("; local endpoints %v", nd.State().LocalNode().Endpoints), map[string]any{"engine": "E4-C10", "probe": p})
				}
			} else if want {
				run.Violation("C10", "permitted-endpoint-refused", desc, map[string]any{"engine": "E4-C10", "probe": p})
			} else if status != 401 {
				run.Violation("C10", "not-refused", desc, map[string]any{"engine": "E4-C10", "probe": p})
			}
		}
	}
}

func c10Tenants(run *evid.Run, evals, nontrivial *int, mu *sync.Mutex) {
	secrets := map[string]string{"default": string(e4.Keys().HMAC), "t1": "tenant-one-secret-aaaaaaaaaaaaaaaaaaaa", "t2": "tenant-two-secret-bbbbbbbbbbbbbbbbbbbb"}
	tables := [][]string{nil, {"t1"}, {"t1", "t2"}}
	for _, table := range tables {
		for _, withDefault := range []bool{true, false} {
			if len(table) == 0 && !withDefault {
				continue // no authentication at all: nothing to confine
			}
			nd, err := e4.StartNode(nil, func(c *config.Config) {
				if withDefault {
					c.Upstream.Auth = auth.Config{HMACSecretKey: secrets["default"]}
				}
				for _, t := range table {
					c.Upstream.Tenants = append(c.Upstream.Tenants, config.TenantConfig{ID: t, Auth: auth.Config{HMACSecretKey: secrets[t]}})
				}
			})
			if err != nil {
				evid.Fatal("start tenant node: %v", err)
			}
			for _, signer := range []string{"default", "t1", "t2"} {
				for _, hdr := range []string{"", "t1", "t2", "t9"} {
					d := e4.TokenDesc{Alg: "HS256", Key: "configured", Tamper: "none", Exp: "future", Nbf: "absent", Aud: "absent", Iss: "absent", Secret: secrets[signer]}
					p := c10Probe{Kind: "tenant", Table: table, Default: withDefault, SignedBy: signer, Header: hdr}
					inTable := false
					for _, t := range table {
						if t == hdr {
							inTable = true
						}
					}
					var want bool
					switch {
					case hdr == "":
						want = len(table) == 0 && withDefault && signer == "default"
					default:
						want = inTable && signer == hdr
					}
					mu.Lock()
					*evals++
					if !want {
						*nontrivial++
					}
					mu.Unlock()
					h := http.Header{}
					h.Set("Authorization", "Bearer "+d.Mint())
					if hdr != "" {
						h.Set("x-piko-tenant-id", hdr)
					}
					dl := &websocket.Dialer{HandshakeTimeout: 20 * time.Second}
					c, resp, err := dl.Dial("ws://"+nd.UpstreamAddr()+"/piko/v1/upstream/e1", h)
					status := 0
					if resp != nil {
						status = resp.StatusCode
					}
					desc := fmt.Sprintf("tenant table %v (default key configured: %v), token signed by %s, tenant header %q -> status %d err %v", table, withDefault, signer, hdr, status, err)
					if err == nil {
						c.Close()
						if !want {
							run.Violation("C10", "accepted-under-wrong-tenant", desc, map[string]any{"engine": "E4-C10", "probe": p})
						}
					} else if want {
						run.Violation("C10", "tenant-token-refused", desc, map[string]any{"engine": "E4-C10", "probe": p})
					} else if status != 401 {
						run.Violation("C10", "not-refused", desc, map[string]any{"engine": "E4-C10", "probe": p})
					}
				}
			}
			nd.Stop()
		}
	}
}

func init() {
	register("C10", func(args []string) int {
		run := evid.NewRun("C10", "exploration")
		e4.Keys()
		var mu sync.Mutex
		evals, nontrivial := 0, 0
		c10Endpoints(run, &evals, &nontrivial, &mu)
		c10Tenants(run, &evals, &nontrivial, &mu)
		c10MixedTenants(run, &evals, &nontrivial, &mu)
		run.Set("evaluations", evals)
		run.Set("distinct_nontrivial", nontrivial)
		run.Set("rule", "real server with HMAC auth and listeners on e1, e2, e1x: 12 endpoint-claim sets (incl. blank and padded ids) x 13 ways of naming the target (Host label, header, conflicting both ways, TCP path, near-miss names) x 2 token headers on the proxy port, and x 5 endpoint names on the upstream (listen) port; tenants: 3 tenant tables x default key on/off x token signed by {default, t1, t2} x tenant header {absent, t1, t2, unknown}; 6 tenant tables with keys of different types (HMAC, RSA, ECDSA default and tenant keys) x 4 signers x tenant headers, one token string per signer replayed under every header; non-trivial = combinations that must be refused or that name conflicting endpoints")
		run.Set("exhaustive", true)
		fmt.Printf("  C10: probes=%d must-refuse-or-conflicting=%d\n", evals, nontrivial)
		return run.Finish()
	})
	replayers["E4-C10"] = func(path string) int {
		fmt.Println("re-run ./check C10 quick: every C10 probe is deterministic and the whole grid takes seconds; probe:")
		var doc map[string]any
		readJSON(path, &doc)
		fmt.Println(doc["replay"])
		return 0
	}
	_ = strings.TrimSpace
}
