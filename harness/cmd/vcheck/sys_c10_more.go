package main

import (
	"fmt"
	"net/http"
	"sync"
	"time"

	"github.com/gorilla/websocket"

	"github.com/andydunstall/piko/pkg/auth"
	"github.com/andydunstall/piko/server/config"
	"verifharness/internal/e4"
	"verifharness/internal/evid"
)

// Tenant tables whose keys are of different types (HMAC default key with an
// RSA tenant, ECDSA default key with HMAC and RSA tenants, ...): a token is
// accepted only under the tenant whose key signed it, whatever the types.

type c10Key struct {
	Kind   string // hmac | rsa | ecdsa
	Secret string // hmac only
}

func (k c10Key) config() auth.Config {
	switch k.Kind {
	case "hmac":
		return auth.Config{HMACSecretKey: k.Secret}
	case "rsa":
		return auth.Config{RSAPublicKey: e4.Keys().RSAPubPEM}
	case "ecdsa":
		return auth.Config{ECDSAPublicKey: e4.Keys().ECPubPEM}
	}
	return auth.Config{}
}

func (k c10Key) token() string {
	d := e4.TokenDesc{Alg: "HS256", Key: "configured", Tamper: "none", Exp: "future", Nbf: "absent", Aud: "absent", Iss: "absent", Secret: k.Secret}
	switch k.Kind {
	case "hmac-empty":
		// signed with the zero-length key: what an unset hmac_secret_key loads as
		d.Key, d.Secret = "empty", ""
	case "rsa":
		d.Alg, d.Secret = "RS256", ""
	case "ecdsa":
		d.Alg, d.Secret = "ES256", ""
	}
	return d.Mint()
}

func c10MixedTenants(run *evid.Run, evals, nontrivial *int, mu *sync.Mutex) {
	keys := map[string]c10Key{
		"default-hmac":  {"hmac", "default-secret-dddddddddddddddddddddddd"},
		"default-ecdsa": {Kind: "ecdsa"},
		"t-hmac":        {"hmac", "tenant-hmac-secret-aaaaaaaaaaaaaaaaaaaaa"},
		"t-rsa":         {Kind: "rsa"},
		"t-ecdsa":       {Kind: "ecdsa"},
		"empty-hmac":    {Kind: "hmac-empty"},
	}
	type table struct {
		Default string
		Tenants []string
	}
	tables := []table{
		{"default-hmac", []string{"t-rsa"}},
		{"default-hmac", []string{"t-rsa", "t-hmac"}},
		{"default-hmac", []string{"t-ecdsa"}},
		{"default-ecdsa", []string{"t-hmac"}},
		{"default-ecdsa", []string{"t-hmac", "t-rsa"}},
		{"", []string{"t-rsa", "t-hmac"}},
	}
	for _, tb := range tables {
		nd, err := e4.StartNode(nil, func(c *config.Config) {
			if tb.Default != "" {
				c.Upstream.Auth = keys[tb.Default].config()
			}
			for _, t := range tb.Tenants {
				c.Upstream.Tenants = append(c.Upstream.Tenants, config.TenantConfig{ID: t, Auth: keys[t].config()})
			}
		})
		if err != nil {
			evid.Fatal("start mixed tenant node %+v: %v", tb, err)
		}
		signers := []string{"default-hmac", "default-ecdsa", "t-hmac", "t-rsa", "empty-hmac"}
		for _, signer := range signers {
			tok := keys[signer].token() // one token string per signer, replayed under every header
			// the header list is walked twice: the second pass replays the token
			// after it has been accepted somewhere
			hdrs := append([]string{""}, tb.Tenants...)
			hdrs = append(hdrs, "t-unknown")
			for _, hdr := range append(append([]string{}, hdrs...), hdrs...) {
				// accepted iff the named tenant's key is the signer's key (t-ecdsa
				// and default-ecdsa are the same key pair)
				same := func(a, b string) bool {
					return a == b || (keys[a].Kind == "ecdsa" && keys[b].Kind == "ecdsa")
				}
				want := hdr != "" && hdr != "t-unknown" && signer != "empty-hmac" && same(hdr, signer)
				p := c10Probe{Kind: "tenant-mixed", Table: append([]string{"default=" + tb.Default}, tb.Tenants...), SignedBy: signer, Header: hdr}
				mu.Lock()
				*evals++
				if !want {
					*nontrivial++
				}
				mu.Unlock()
				h := http.Header{}
				h.Set("Authorization", "Bearer "+tok)
				if hdr != "" {
					h.Set("x-piko-tenant-id", hdr)
				}
				dl := &websocket.Dialer{HandshakeTimeout: 20 * time.Second}
				c, resp, err := dl.Dial("ws://"+nd.UpstreamAddr()+"/piko/v1/upstream/e1", h)
				status := 0
				if resp != nil {
					status = resp.StatusCode
				}
				desc := fmt.Sprintf("default key %q, tenants %v: token signed by %s presented with tenant header %q -> status %d err %v", tb.Default, tb.Tenants, signer, hdr, status, err)
				if err == nil {
					c.Close()
					if !want {
						run.Violation("C10", "accepted-under-wrong-tenant", desc, map[string]any{"engine": "E4-C10", "probe": p})
					}
				} else if want {
					run.Violation("C10", "tenant-token-refused", desc, map[string]any{"engine": "E4-C10", "probe": p})
				} else if status != 401 {
					run.Violation("C10", "not-refused", desc, map[string]any{"engine": "E4-C10", "probe": p})
				}
			}
		}
		nd.Stop()
	}
}
