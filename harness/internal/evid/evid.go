// Package evid writes evidence files, violation replays and handles the
// committed known-findings list.
package evid

import (
	"crypto/sha256"
	"encoding/json"
	"fmt"
	"os"
	"path/filepath"
	"sort"
	"strconv"
	"strings"
	"sync"
	"time"
)

var Root = func() string {
	if r := os.Getenv("VERIF_ROOT"); r != "" {
		return r
	}
	return "/verif"
}()

type Finding struct {
	Property string `json:"property"`
	Key      string `json:"key"`
	What     string `json:"what"`
}

type knownFile struct {
	Findings []Finding `json:"findings"`
	Fixed    []struct {
		Property string `json:"property"`
		Commit   string `json:"commit"`
		What     string `json:"what"`
	} `json:"fixed"`
}

var (
	knownOnce sync.Once
	known     []Finding
)

func loadKnown() {
	b, err := os.ReadFile(filepath.Join(Root, "known_findings.json"))
	if err != nil {
		return
	}
	var kf knownFile
	if err := json.Unmarshal(b, &kf); err != nil {
		fmt.Fprintf(os.Stderr, "HARNESS-ERROR known_findings.json: %v\n", err)
		os.Exit(2)
	}
	known = kf.Findings
}

// IsKnown reports whether (property, sig) is a recorded finding.
func IsKnown(property, sig string) (Finding, bool) {
	knownOnce.Do(loadKnown)
	for _, f := range known {
		if f.Property == property && f.Key == sig {
			return f, true
		}
	}
	return Finding{}, false
}

// Run collects what one check run covered.
type Run struct {
	Property string
	Tier     string
	Level    string
	Seed     int64
	start    time.Time

	mu          sync.Mutex
	Coverage    map[string]any
	Assumptions []string
	violations  int
	knownPrint  map[string]bool
	samples     []any
}

func Tier() string {
	t := os.Getenv("VERIF_TIER")
	if t != "thorough" {
		t = "quick"
	}
	return t
}

func Seed() int64 {
	s, _ := strconv.ParseInt(os.Getenv("VERIF_SEED"), 10, 64)
	return s
}

func NewRun(property, level string) *Run {
	return &Run{Property: property, Tier: Tier(), Level: level, Seed: Seed(), start: time.Now(),
		Coverage: map[string]any{}, knownPrint: map[string]bool{}}
}

func (r *Run) Thorough() bool { return r.Tier == "thorough" }

func (r *Run) Set(k string, v any) {
	r.mu.Lock()
	r.Coverage[k] = v
	r.mu.Unlock()
}

func (r *Run) Add(k string, n int) {
	r.mu.Lock()
	cur, _ := r.Coverage[k].(int)
	r.Coverage[k] = cur + n
	r.mu.Unlock()
}

func (r *Run) Sample(s any) {
	r.mu.Lock()
	if len(r.samples) < 12 {
		r.samples = append(r.samples, s)
	}
	r.mu.Unlock()
}

func (r *Run) Assume(s string) { r.Assumptions = append(r.Assumptions, s) }

// Violation records one oracle failure. If its signature is listed in
// known_findings.json it is printed as KNOWN-FINDING (once per signature) and
// does not count; otherwise the replay is written and a VIOLATION line
// printed.
func (r *Run) Violation(property, sig, msg string, replay any) {
	r.mu.Lock()
	defer r.mu.Unlock()
	if f, ok := IsKnown(property, sig); ok {
		if !r.knownPrint[sig] {
			r.knownPrint[sig] = true
			fmt.Printf("KNOWN-FINDING: property=%s %s [%s]\n", property, f.What, sig)
		}
		return
	}
	r.violations++
	if r.violations > 5 {
		return
	}
	doc := map[string]any{"property": property, "signature": sig, "message": msg, "replay": replay, "tier": r.Tier}
	b, _ := json.MarshalIndent(doc, "", " ")
	h := sha256.Sum256(b)
	dir := filepath.Join(Root, "replays")
	_ = os.MkdirAll(dir, 0o755)
	path := filepath.Join(dir, fmt.Sprintf("%s-%x.json", property, h[:6]))
	_ = os.WriteFile(path, b, 0o644)
	fmt.Printf("  %s [%s]: %s\n", property, sig, msg)
	fmt.Printf("VIOLATION property=%s replay=%s\n", property, path)
}

// CountViolations adds violations that an auxiliary pass has already printed.
func (r *Run) CountViolations(n int) {
	r.mu.Lock()
	defer r.mu.Unlock()
	r.violations += n
}

func (r *Run) Violations() int {
	r.mu.Lock()
	defer r.mu.Unlock()
	return r.violations
}

// KnownSeen lists the known-finding signatures reproduced by this run.
func (r *Run) KnownSeen() []string {
	var out []string
	for k := range r.knownPrint {
		out = append(out, k)
	}
	sort.Strings(out)
	return out
}

// Finish writes the evidence file and returns the process exit code.
func (r *Run) Finish() int {
	r.mu.Lock()
	defer r.mu.Unlock()
	if len(r.samples) > 0 {
		r.Coverage["samples"] = r.samples
	}
	if ks := func() []string {
		var out []string
		for k := range r.knownPrint {
			out = append(out, k)
		}
		sort.Strings(out)
		return out
	}(); len(ks) > 0 {
		r.Coverage["known_findings_reproduced"] = ks
	}
	doc := map[string]any{
		"property_id": r.Property,
		"tier":        r.Tier,
		"seed":        r.Seed,
		"level":       r.Level,
		"coverage":    r.Coverage,
		"assumptions": r.Assumptions,
		"wall_s":      time.Since(r.start).Seconds(),
		"violations":  r.violations,
	}
	if r.Assumptions == nil {
		doc["assumptions"] = []string{}
	}
	b, err := json.MarshalIndent(doc, "", " ")
	if err != nil {
		fmt.Fprintf(os.Stderr, "HARNESS-ERROR evidence: %v\n", err)
		return 2
	}
	dir := filepath.Join(Root, "evidence")
	_ = os.MkdirAll(dir, 0o755)
	if err := os.WriteFile(filepath.Join(dir, r.Property+".json"), append(b, '\n'), 0o644); err != nil {
		fmt.Fprintf(os.Stderr, "HARNESS-ERROR evidence: %v\n", err)
		return 2
	}
	fmt.Printf("%s %s: %s violations=%d wall=%.1fs\n", r.Property, r.Tier, summary(r.Coverage), r.violations, time.Since(r.start).Seconds())
	if r.violations > 0 {
		return 1
	}
	return 0
}

func summary(c map[string]any) string {
	var parts []string
	for _, k := range []string{"states", "transitions", "evaluations", "distinct_nontrivial", "schedules", "exhaustive"} {
		if v, ok := c[k]; ok {
			parts = append(parts, fmt.Sprintf("%s=%v", k, v))
		}
	}
	return strings.Join(parts, " ")
}

// Fatal reports a failure of the machinery itself (never a VIOLATION).
func Fatal(format string, a ...any) {
	fmt.Fprintf(os.Stderr, "HARNESS-ERROR "+format+"\n", a...)
	os.Exit(2)
}
