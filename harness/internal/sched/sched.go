// Package sched explores the thread interleavings of a small harness
// exhaustively up to a preemption bound (iterative context bounding), using
// the cooperative scheduler in verifshim/vsync: the scheduling points are the
// real code's own Mutex/RWMutex acquisitions.
package sched

import (
	"fmt"
	"time"

	"github.com/andydunstall/piko/verifshim/vsync"
)

// Program builds fresh objects and returns the thread bodies plus a check
// evaluated after the execution finished.
type Program func() (bodies []func(), check func(o *vsync.Outcome) []string)

type Failure struct {
	Schedule []int
	Trace    []string
	Msgs     []string
}

type Result struct {
	Executions  int
	Points      int // total scheduling points executed
	MaxPoints   int // longest execution
	Bound       int
	Complete    bool // all schedules within the bound explored
	CapHit      string
	Failures    []Failure
	Outcomes    map[string]int // distinct final observations
	Wall        time.Duration
	ReplayCheck int
}

type Options struct {
	Bound       int
	MaxSteps    int
	Deadline    time.Duration
	MaxFailures int
	// Observe returns a string describing the final state (for counting
	// distinct outcomes); optional.
}

func runOnce(p Program, prefix []int, maxSteps int) (*vsync.Outcome, []string, []int) {
	bodies, check := p()
	var choices []int
	o := vsync.Run(bodies, maxSteps, func(pt *vsync.Point) int {
		i := len(choices)
		c := 0
		if i < len(prefix) {
			c = prefix[i]
			if c >= len(pt.Enabled) {
				panic(fmt.Sprintf("sched: replay divergence: choice %d at point %d but only %d enabled", c, i, len(pt.Enabled)))
			}
		}
		choices = append(choices, c)
		return c
	})
	var msgs []string
	if o.Deadlock {
		msgs = append(msgs, fmt.Sprintf("deadlock: %v", o.Blocked))
	}
	if o.Horizon {
		msgs = append(msgs, "step horizon exceeded (livelock?)")
	}
	for _, p := range o.Panics {
		msgs = append(msgs, "panic: "+p)
	}
	if !o.Deadlock && !o.Horizon && len(o.Panics) == 0 && check != nil {
		msgs = append(msgs, check(o)...)
	}
	return o, msgs, choices
}

func trace(o *vsync.Outcome) []string {
	var t []string
	for _, p := range o.Points {
		t = append(t, p.Desc)
	}
	return t
}

// Replay runs one schedule and returns the failure messages and the trace.
func Replay(p Program, schedule []int, maxSteps int) ([]string, []string) {
	o, msgs, _ := runOnce(p, schedule, maxSteps)
	return msgs, trace(o)
}

// Explore enumerates every schedule with at most opt.Bound preemptions.
func Explore(p Program, opt Options, outcome func() string) *Result {
	start := time.Now()
	if opt.MaxSteps == 0 {
		opt.MaxSteps = 2000
	}
	if opt.MaxFailures == 0 {
		opt.MaxFailures = 3
	}
	res := &Result{Bound: opt.Bound, Outcomes: map[string]int{}, Complete: true}
	stack := [][]int{nil}
	for len(stack) > 0 {
		if opt.Deadline > 0 && time.Since(start) > opt.Deadline {
			res.Complete = false
			res.CapHit = fmt.Sprintf("deadline %s", opt.Deadline)
			break
		}
		prefix := stack[len(stack)-1]
		stack = stack[:len(stack)-1]
		o, msgs, choices := runOnce(p, prefix, opt.MaxSteps)
		res.Executions++
		res.Points += len(o.Points)
		if len(o.Points) > res.MaxPoints {
			res.MaxPoints = len(o.Points)
		}
		if outcome != nil && len(msgs) == 0 {
			res.Outcomes[outcome()]++
		}
		if len(msgs) > 0 {
			// believe a failure only if it reproduces
			m2, _ := Replay(p, choices, opt.MaxSteps)
			res.ReplayCheck++
			if fmt.Sprint(m2) != fmt.Sprint(msgs) {
				panic(fmt.Sprintf("sched: failure does not reproduce on replay: %v vs %v", msgs, m2))
			}
			res.Failures = append(res.Failures, Failure{Schedule: choices, Trace: trace(o), Msgs: msgs})
			if len(res.Failures) >= opt.MaxFailures {
				res.Complete = false
				res.CapHit = "failure limit"
				break
			}
		}
		// preemptions used before each point
		pre := 0
		for i, pt := range o.Points {
			if i >= len(prefix) {
				cost := pre
				if pt.RunningEnabled {
					cost++
				}
				if cost <= opt.Bound {
					for alt := 1; alt < len(pt.Enabled); alt++ {
						np := make([]int, i+1)
						copy(np, choices[:i])
						np[i] = alt
						stack = append(stack, np)
					}
				}
			}
			if pt.RunningEnabled && pt.Chosen != 0 {
				pre++
			}
		}
	}
	res.Wall = time.Since(start)
	return res
}
