// Package e4 runs real piko nodes (component clusters and full servers) on
// loopback sockets for the enumerated-configuration checks.
package e4

import (
	"bufio"
	"fmt"
	"io"
	"net"
	"net/http"
	"strings"
	"sync"
	"sync/atomic"
	"time"

	"github.com/andydunstall/piko/pkg/auth"
	"github.com/andydunstall/piko/pkg/log"
	"github.com/andydunstall/piko/server/cluster"
	"github.com/andydunstall/piko/server/config"
	"github.com/andydunstall/piko/server/proxy"
	"github.com/andydunstall/piko/server/upstream"
)

// countingListener counts accepted connections (one per client request or
// inter-node hop, since neither side keeps connections alive).
type countingListener struct {
	net.Listener
	n *atomic.Int64
}

func (l *countingListener) Accept() (net.Conn, error) {
	c, err := l.Listener.Accept()
	if err == nil {
		l.n.Add(1)
	}
	return c, err
}

// StampUpstream is a harness upstream: every Dial hands the proxy one side of
// an in-memory pipe whose other side is served by a stamp server that answers
// HTTP requests (and raw TCP tunnels) with its endpoint and upstream id.
type StampUpstream struct {
	Endpoint string
	Name     string
	Node     string
	Served   atomic.Int64
	// Behaviour switches for failure-matrix checks.
	Gone    atomic.Bool // Dial reports upstream.ErrGone
	Refuse  atomic.Bool // Dial fails
	Early   atomic.Bool // closes the connection after reading the request
	Handler http.Handler
}

func (u *StampUpstream) EndpointID() string { return u.Endpoint }
func (u *StampUpstream) Forward() bool      { return false }

func (u *StampUpstream) Dial() (net.Conn, error) {
	if u.Gone.Load() {
		return nil, upstream.ErrGone
	}
	if u.Refuse.Load() {
		return nil, fmt.Errorf("stamp upstream %s: refused", u.Name)
	}
	a, b := net.Pipe()
	go u.serve(b)
	return a, nil
}

// ServeConn answers one accepted connection with the stamp protocol.
func (u *StampUpstream) ServeConn(c net.Conn) { u.serve(c) }

func (u *StampUpstream) serve(c net.Conn) {
	defer c.Close()
	br := bufio.NewReader(c)
	peek, err := br.Peek(4)
	if err != nil {
		return
	}
	if string(peek) == "tcp:" {
		// raw tunnel: stamp line, then echo
		u.Served.Add(1)
		line, err := br.ReadString('\n')
		if err != nil {
			return
		}
		fmt.Fprintf(c, "STAMP %s %s %s %s", u.Endpoint, u.Name, u.Node, line)
		_, _ = io.Copy(c, br)
		return
	}
	for {
		req, err := http.ReadRequest(br)
		if err != nil {
			return
		}
		u.Served.Add(1)
		if u.Early.Load() {
			return
		}
		rw := &pipeResponse{h: http.Header{}, c: c, req: req}
		rw.h.Set("X-Stamp-Endpoint", u.Endpoint)
		rw.h.Set("X-Stamp-Upstream", u.Name)
		rw.h.Set("X-Stamp-Node", u.Node)
		if u.Handler != nil {
			u.Handler.ServeHTTP(rw, req)
		} else {
			_, _ = io.Copy(io.Discard, req.Body)
			_, _ = rw.Write([]byte("stamp " + u.Endpoint + " " + u.Name))
		}
		rw.finish()
		if req.Close || true {
			return
		}
	}
}

// pipeResponse is a minimal http.ResponseWriter over a raw connection.
type pipeResponse struct {
	h      http.Header
	c      net.Conn
	req    *http.Request
	status int
	body   []byte
}

func (w *pipeResponse) Header() http.Header { return w.h }
func (w *pipeResponse) WriteHeader(s int)   { w.status = s }
func (w *pipeResponse) Write(b []byte) (int, error) {
	w.body = append(w.body, b...)
	return len(b), nil
}
func (w *pipeResponse) finish() {
	if w.status == 0 {
		w.status = 200
	}
	resp := &http.Response{StatusCode: w.status, ProtoMajor: 1, ProtoMinor: 1, Header: w.h, Request: w.req,
		Body: io.NopCloser(strings.NewReader(string(w.body))), ContentLength: int64(len(w.body)), Close: true}
	_ = resp.Write(w.c)
}

// CompNode is one node of a component cluster (no gossip): the routing view
// is whatever the check writes into CS.
type CompNode struct {
	ID      string
	CS      *cluster.State
	Mgr     *upstream.LoadBalancedManager
	Proxy   *proxy.Server
	Ln      net.Listener
	Addr    string
	Accepts atomic.Int64
}

type CompCluster struct {
	Nodes []*CompNode
	wg    sync.WaitGroup
}

func NewCompCluster(n int, pc config.ProxyConfig, verifier *auth.MultiTenantVerifier) *CompCluster {
	c := &CompCluster{}
	for i := 0; i < n; i++ {
		ln, err := net.Listen("tcp", "127.0.0.1:0")
		if err != nil {
			panic(err)
		}
		nd := &CompNode{ID: fmt.Sprintf("n%d", i), Addr: ln.Addr().String()}
		nd.Ln = &countingListener{Listener: ln, n: &nd.Accepts}
		nd.CS = cluster.NewState(&cluster.Node{ID: nd.ID, ProxyAddr: nd.Addr, AdminAddr: "127.0.0.1:1"}, log.NewNopLogger())
		nd.Mgr = upstream.NewLoadBalancedManager(nd.CS, nil)
		nd.Proxy = proxy.NewServer(nd.Mgr, pc, nil, verifier, nil, log.NewNopLogger())
		c.Nodes = append(c.Nodes, nd)
		c.wg.Add(1)
		go func() {
			defer c.wg.Done()
			_ = nd.Proxy.Serve(nd.Ln)
		}()
	}
	return c
}

func (c *CompCluster) Close() {
	for _, n := range c.Nodes {
		_ = n.Ln.Close()
	}
}

func (c *CompCluster) TotalAccepts() int64 {
	var t int64
	for _, n := range c.Nodes {
		t += n.Accepts.Load()
	}
	return t
}

// Believe makes node i list node j as an active node serving the endpoint
// with the given number of upstreams (0 removes the belief).
func (c *CompCluster) Believe(i, j int, endpoint string, count int) {
	ni, nj := c.Nodes[i], c.Nodes[j]
	if _, ok := ni.CS.Node(nj.ID); !ok {
		ni.CS.AddNode(&cluster.Node{ID: nj.ID, Status: cluster.NodeStatusActive, ProxyAddr: nj.Addr, AdminAddr: "127.0.0.1:1"})
	}
	if count > 0 {
		ni.CS.UpdateRemoteEndpoint(nj.ID, endpoint, count)
	} else {
		ni.CS.RemoveRemoteEndpoint(nj.ID, endpoint)
	}
}

// DefaultProxyConfig mirrors config.Default().Proxy.
func DefaultProxyConfig() config.ProxyConfig {
	pc := config.Default().Proxy
	pc.AccessLog.Disable = true
	return pc
}

// Client is an HTTP client that opens one connection per request.
func Client() *http.Client {
	return &http.Client{
		Transport: &http.Transport{DisableKeepAlives: true, Proxy: nil},
		Timeout:   30 * time.Second,
		CheckRedirect: func(req *http.Request, via []*http.Request) error {
			return http.ErrUseLastResponse
		},
	}
}
