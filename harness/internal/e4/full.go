package e4

import (
	"context"
	"fmt"
	"net"
	"net/http"
	"net/url"
	"sort"
	"strings"
	"sync"
	"sync/atomic"
	"time"

	"github.com/andydunstall/piko/client"
	"github.com/andydunstall/piko/pkg/log"
	"github.com/andydunstall/piko/server"
	"github.com/andydunstall/piko/server/cluster"
	"github.com/andydunstall/piko/server/config"
)

// FullNode is a complete in-process piko server (real server.Server).
type FullNode struct {
	ID      string
	Conf    *config.Config
	Srv     *server.Server
	stopped atomic.Bool
}

var nodeSeq atomic.Int64

// NodeConfig builds the configuration pikotest uses for in-process nodes.
func NodeConfig(join []string) *config.Config {
	conf := config.Default()
	conf.Proxy.BindAddr = "127.0.0.1:0"
	conf.Upstream.BindAddr = "127.0.0.1:0"
	conf.Admin.BindAddr = "127.0.0.1:0"
	conf.Cluster.NodeID = fmt.Sprintf("node%02d", nodeSeq.Add(1))
	conf.Cluster.Join = join
	conf.Cluster.JoinTimeout = 5 * time.Second
	conf.Cluster.AbortIfJoinFails = false
	conf.Cluster.Gossip.BindAddr = "127.0.0.1:0"
	// 40ms: a node is suspected after ~1.6s without a heartbeat (20 x 2 x
	// interval), so that a loaded machine does not make healthy nodes flap
	conf.Cluster.Gossip.Interval = 40 * time.Millisecond
	conf.Proxy.AccessLog.Disable = true
	conf.GracePeriod = 5 * time.Second
	return conf
}

func StartNode(join []string, mutate func(*config.Config)) (*FullNode, error) {
	conf := NodeConfig(join)
	if mutate != nil {
		mutate(conf)
	}
	srv, err := server.NewServer(conf, log.NewNopLogger())
	if err != nil {
		return nil, err
	}
	if err := srv.Start(); err != nil {
		return nil, err
	}
	return &FullNode{ID: conf.Cluster.NodeID, Conf: conf, Srv: srv}, nil
}

func (n *FullNode) ProxyAddr() string    { return n.Conf.Proxy.AdvertiseAddr }
func (n *FullNode) UpstreamAddr() string { return n.Conf.Upstream.AdvertiseAddr }
func (n *FullNode) AdminAddr() string    { return n.Conf.Admin.AdvertiseAddr }
func (n *FullNode) GossipAddr() string   { return n.Conf.Cluster.Gossip.AdvertiseAddr }
func (n *FullNode) State() *cluster.State { return n.Srv.ClusterState() }

func (n *FullNode) Stop() {
	if n.stopped.CompareAndSwap(false, true) {
		n.Srv.Shutdown()
	}
}

// StartCluster starts n nodes, each joining the first.
func StartCluster(n int, mutate func(i int, c *config.Config)) ([]*FullNode, error) {
	var nodes []*FullNode
	for i := 0; i < n; i++ {
		var join []string
		if i > 0 {
			join = []string{nodes[0].GossipAddr()}
		}
		ii := i
		nd, err := StartNode(join, func(c *config.Config) {
			if mutate != nil {
				mutate(ii, c)
			}
		})
		if err != nil {
			for _, x := range nodes {
				x.Stop()
			}
			return nil, err
		}
		nodes = append(nodes, nd)
	}
	return nodes, nil
}

// StampListener is a real client.Listener whose accepted connections are
// answered by the stamp server.
type StampListener struct {
	Endpoint string
	Name     string
	Ln       client.Listener
	// Served counts requests/tunnels answered; it is incremented before the
	// answer is written, so a client that has its response sees the count.
	Served *atomic.Int64
	su     *StampUpstream
	Handler  http.Handler
	done     chan struct{}
	AcceptErr atomic.Value // last error returned by Accept (string)
	mu       sync.Mutex
	conns    map[net.Conn]struct{}
}

type ListenOpts struct {
	Token    string
	TenantID string
	Handler  http.Handler
	MinBackoff, MaxBackoff time.Duration
}

func Listen(ctx context.Context, upstreamAddr, endpoint, name string, o ListenOpts) (*StampListener, error) {
	u := &client.Upstream{
		URL:                 &url.URL{Scheme: "http", Host: upstreamAddr},
		Token:               o.Token,
		TenantID:            o.TenantID,
		MinReconnectBackoff: o.MinBackoff,
		MaxReconnectBackoff: o.MaxBackoff,
	}
	if u.MinReconnectBackoff == 0 {
		u.MinReconnectBackoff = 20 * time.Millisecond
	}
	if u.MaxReconnectBackoff == 0 {
		u.MaxReconnectBackoff = 200 * time.Millisecond
	}
	// as the agent does: the context passed to Listen bounds the initial
	// connect only and is released as soon as Listen returns
	cctx, cancel := context.WithCancel(ctx)
	ln, err := u.Listen(cctx, endpoint)
	cancel()
	if err != nil {
		return nil, err
	}
	l := &StampListener{Endpoint: endpoint, Name: name, Ln: ln, Handler: o.Handler, done: make(chan struct{}), conns: map[net.Conn]struct{}{}}
	l.su = &StampUpstream{Endpoint: endpoint, Name: name, Node: "-", Handler: o.Handler}
	l.Served = &l.su.Served
	go l.loop()
	return l, nil
}

func (l *StampListener) loop() {
	defer close(l.done)
	su := l.su
	for {
		c, err := l.Ln.Accept()
		if err != nil {
			l.AcceptErr.Store(err.Error())
			return
		}
		l.mu.Lock()
		l.conns[c] = struct{}{}
		l.mu.Unlock()
		go func() {
			su.serve(c)
			l.mu.Lock()
			delete(l.conns, c)
			l.mu.Unlock()
		}()
	}
}

// Done is closed when Accept has returned an error (listener ended).
func (l *StampListener) Done() <-chan struct{} { return l.done }

func (l *StampListener) LastErr() string {
	if v := l.AcceptErr.Load(); v != nil {
		return v.(string)
	}
	return ""
}

// WaitSettled polls until pred holds or the deadline passes.
func WaitFor(deadline time.Duration, pred func() bool) bool {
	end := time.Now().Add(deadline)
	for {
		if pred() {
			return true
		}
		if time.Now().After(end) {
			return false
		}
		time.Sleep(5 * time.Millisecond)
	}
}

// AllActive: every node lists every other node as active. The failure
// detector runs on wall-clock heartbeats; on a starved machine a healthy node
// can be suspected for a moment, during which requests that need it are
// refused (correctly). Checks whose oracle assumes a healthy cluster ask this
// before they believe a refusal.
func AllActive(nodes []*FullNode) bool {
	for _, o := range nodes {
		for _, x := range nodes {
			if o == x {
				continue
			}
			n, ok := o.State().Node(x.ID)
			if !ok || n.Status != cluster.NodeStatusActive {
				return false
			}
		}
	}
	return true
}

// WaitAllActive waits until AllActive holds continuously for a short while.
func WaitAllActive(nodes []*FullNode, d time.Duration) bool {
	end := time.Now().Add(d)
	for time.Now().Before(end) {
		if AllActive(nodes) {
			time.Sleep(100 * time.Millisecond)
			if AllActive(nodes) {
				return true
			}
		}
		time.Sleep(20 * time.Millisecond)
	}
	return false
}

// ViewOf renders node n's routing table as "id:status{ep=count,...};..."
func ViewOf(n *FullNode) string {
	var parts []string
	for _, nd := range n.State().Nodes() {
		var eps []string
		for e, c := range nd.Endpoints {
			if c > 0 {
				eps = append(eps, fmt.Sprintf("%s=%d", e, c))
			}
		}
		sort.Strings(eps)
		parts = append(parts, fmt.Sprintf("%s:%s{%s}", nd.ID, nd.Status, strings.Join(eps, ",")))
	}
	sort.Strings(parts)
	return strings.Join(parts, ";")
}
