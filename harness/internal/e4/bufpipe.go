package e4

import (
	"io"
	"net"
	"os"
	"sync"
	"time"
)

// BufPipe returns the two ends of an in-memory duplex connection whose writes
// never block (unbounded buffer) and whose reads honour deadlines.
func BufPipe() (net.Conn, net.Conn) {
	ab, ba := newHalf(), newHalf()
	return &bufConn{r: ba, w: ab}, &bufConn{r: ab, w: ba}
}

type half struct {
	mu     sync.Mutex
	cond   *sync.Cond
	buf    []byte
	closed bool
}

func newHalf() *half {
	h := &half{}
	h.cond = sync.NewCond(&h.mu)
	return h
}

type bufConn struct {
	r, w     *half
	mu       sync.Mutex
	deadline time.Time
}

func (c *bufConn) Read(p []byte) (int, error) {
	h := c.r
	h.mu.Lock()
	defer h.mu.Unlock()
	for len(h.buf) == 0 {
		if h.closed {
			return 0, io.EOF
		}
		c.mu.Lock()
		dl := c.deadline
		c.mu.Unlock()
		if !dl.IsZero() {
			d := time.Until(dl)
			if d <= 0 {
				return 0, os.ErrDeadlineExceeded
			}
			t := time.AfterFunc(d, func() { h.mu.Lock(); h.cond.Broadcast(); h.mu.Unlock() })
			h.cond.Wait()
			t.Stop()
			continue
		}
		h.cond.Wait()
	}
	n := copy(p, h.buf)
	h.buf = h.buf[n:]
	return n, nil
}

func (c *bufConn) Write(p []byte) (int, error) {
	h := c.w
	h.mu.Lock()
	defer h.mu.Unlock()
	if h.closed {
		return 0, io.ErrClosedPipe
	}
	h.buf = append(h.buf, p...)
	h.cond.Broadcast()
	return len(p), nil
}

func (c *bufConn) Close() error {
	for _, h := range []*half{c.r, c.w} {
		h.mu.Lock()
		h.closed = true
		h.cond.Broadcast()
		h.mu.Unlock()
	}
	return nil
}

func (c *bufConn) LocalAddr() net.Addr  { return &net.TCPAddr{} }
func (c *bufConn) RemoteAddr() net.Addr { return &net.TCPAddr{} }
func (c *bufConn) SetDeadline(t time.Time) error {
	return c.SetReadDeadline(t)
}
func (c *bufConn) SetReadDeadline(t time.Time) error {
	c.mu.Lock()
	c.deadline = t
	c.mu.Unlock()
	c.r.mu.Lock()
	c.r.cond.Broadcast()
	c.r.mu.Unlock()
	return nil
}
func (c *bufConn) SetWriteDeadline(t time.Time) error { return nil }
