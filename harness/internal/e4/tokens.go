package e4

import (
	"crypto/ecdsa"
	"crypto/elliptic"
	"crypto/rand"
	"crypto/rsa"
	"crypto/x509"
	"encoding/base64"
	"encoding/json"
	"encoding/pem"
	"fmt"
	"math/big"
	"os"
	"strings"
	"sync"
	"time"

	"github.com/golang-jwt/jwt/v5"

	"github.com/andydunstall/piko/pkg/auth"
)

// Keys used by the authentication checks (generated once per process).
type KeySet struct {
	HMAC, HMACOther   []byte
	RSA, RSAOther     *rsa.PrivateKey
	EC256, EC256Other *ecdsa.PrivateKey
	EC384, EC521      *ecdsa.PrivateKey
	RSAPubPEM         string
	ECPubPEM          string
}

var (
	keysOnce sync.Once
	keys     *KeySet
)

func Keys() *KeySet {
	keysOnce.Do(func() {
		k := &KeySet{HMAC: []byte("verif-configured-hmac-secret-0123456789"), HMACOther: []byte("verif-some-other-hmac-secret-987654321")}
		var err error
		must := func(e error) {
			if e != nil {
				panic(e)
			}
		}
		k.RSA, err = rsa.GenerateKey(rand.Reader, 2048)
		must(err)
		k.RSAOther, err = rsa.GenerateKey(rand.Reader, 2048)
		must(err)
		k.EC256, err = ecdsa.GenerateKey(elliptic.P256(), rand.Reader)
		must(err)
		k.EC256Other, err = ecdsa.GenerateKey(elliptic.P256(), rand.Reader)
		must(err)
		k.EC384, err = ecdsa.GenerateKey(elliptic.P384(), rand.Reader)
		must(err)
		k.EC521, err = ecdsa.GenerateKey(elliptic.P521(), rand.Reader)
		must(err)
		b, err := x509.MarshalPKIXPublicKey(&k.RSA.PublicKey)
		must(err)
		k.RSAPubPEM = string(pem.EncodeToMemory(&pem.Block{Type: "PUBLIC KEY", Bytes: b}))
		b, err = x509.MarshalPKIXPublicKey(&k.EC256.PublicKey)
		must(err)
		k.ECPubPEM = string(pem.EncodeToMemory(&pem.Block{Type: "PUBLIC KEY", Bytes: b}))
		keys = k
	})
	return keys
}

// KeyConfig names one key configuration of a port.
type KeyConfig struct {
	Name     string `json:"name"` // hmac rsa ecdsa jwks hmac+rsa hmac+rsa+ecdsa
	Audience string `json:"audience,omitempty"`
	Issuer   string `json:"issuer,omitempty"`
}

func (kc KeyConfig) Has(family string) bool {
	if kc.Name == "jwks" {
		return family == "rsa" || family == "ecdsa"
	}
	for _, p := range strings.Split(kc.Name, "+") {
		if p == family {
			return true
		}
	}
	return false
}

func b64(b []byte) string { return base64.RawURLEncoding.EncodeToString(b) }

// WriteJWKS writes a JWK set with the configured RSA key (kid r1) and the
// configured P-256 key (kid e1) and returns its path.
func WriteJWKS(dir string) string {
	k := Keys()
	size := (k.EC256.Curve.Params().BitSize + 7) / 8
	pad := func(x *big.Int) []byte {
		b := x.Bytes()
		for len(b) < size {
			b = append([]byte{0}, b...)
		}
		return b
	}
	set := map[string]any{"keys": []map[string]any{
		{"kty": "RSA", "kid": "r1", "use": "sig", "n": b64(k.RSA.PublicKey.N.Bytes()), "e": b64(big.NewInt(int64(k.RSA.PublicKey.E)).Bytes())},
		{"kty": "EC", "kid": "e1", "use": "sig", "crv": "P-256", "x": b64(pad(k.EC256.PublicKey.X)), "y": b64(pad(k.EC256.PublicKey.Y))},
	}}
	b, _ := json.Marshal(set)
	p := dir + "/jwks.json"
	if err := os.WriteFile(p, b, 0o600); err != nil {
		panic(err)
	}
	return p
}

// AuthConfig turns a KeyConfig into piko's auth.Config.
func (kc KeyConfig) AuthConfig(jwksPath string) auth.Config {
	k := Keys()
	c := auth.Config{Audience: kc.Audience, Issuer: kc.Issuer}
	if kc.Name == "jwks" {
		c.JWKS.Endpoint = "file://" + jwksPath
		return c
	}
	if kc.Has("hmac") {
		c.HMACSecretKey = string(k.HMAC)
	}
	if kc.Has("rsa") {
		c.RSAPublicKey = k.RSAPubPEM
	}
	if kc.Has("ecdsa") {
		c.ECDSAPublicKey = k.ECPubPEM
	}
	return c
}

// TokenDesc describes one token variation; Mint produces the token string and
// Expected says (independently of piko) whether it must be accepted.
type TokenDesc struct {
	Alg    string `json:"alg"`    // HS256.. RS256.. ES256.. PS256 none
	Key    string `json:"key"`    // configured | other | pubpem-as-hmac
	Tamper string `json:"tamper"` // none payload signature alg-swap drop-segment empty
	Exp    string `json:"exp"`    // absent future past
	Nbf    string `json:"nbf"`    // absent past future
	Aud    string `json:"aud"`    // absent match other list
	Iss    string `json:"iss"`    // absent match other
	// Endpoints claim (C10)
	Endpoints []string `json:"endpoints,omitempty"`
	ExpIn     int      `json:"exp_in_s,omitempty"` // override: expiry this many seconds from now
	// Secret overrides the HMAC signing key (tenant keys, C10).
	Secret string `json:"secret,omitempty"`
}

func family(alg string) string {
	switch {
	case strings.HasPrefix(alg, "HS"):
		return "hmac"
	case strings.HasPrefix(alg, "RS"):
		return "rsa"
	case strings.HasPrefix(alg, "ES"):
		return "ecdsa"
	case strings.HasPrefix(alg, "PS"):
		return "rsa-pss"
	}
	return "none"
}

type pikoClaims struct {
	jwt.RegisteredClaims
	Piko struct {
		Endpoints []string `json:"endpoints,omitempty"`
	} `json:"piko"`
}

const (
	TheAudience = "piko-aud"
	TheIssuer   = "piko-iss"
)

func (d TokenDesc) Mint() string {
	k := Keys()
	c := pikoClaims{}
	now := time.Now()
	switch d.Exp {
	case "future":
		c.ExpiresAt = jwt.NewNumericDate(now.Add(time.Hour))
	case "past":
		c.ExpiresAt = jwt.NewNumericDate(now.Add(-time.Hour))
	}
	if d.ExpIn != 0 {
		c.ExpiresAt = jwt.NewNumericDate(now.Add(time.Duration(d.ExpIn) * time.Second))
	}
	switch d.Nbf {
	case "past":
		c.NotBefore = jwt.NewNumericDate(now.Add(-time.Hour))
	case "future":
		c.NotBefore = jwt.NewNumericDate(now.Add(time.Hour))
	}
	switch d.Aud {
	case "match":
		c.Audience = jwt.ClaimStrings{TheAudience}
	case "other":
		c.Audience = jwt.ClaimStrings{"someone-else"}
	case "list":
		c.Audience = jwt.ClaimStrings{"someone-else", TheAudience}
	}
	switch d.Iss {
	case "match":
		c.Issuer = TheIssuer
	case "other":
		c.Issuer = "someone-else"
	}
	c.Piko.Endpoints = d.Endpoints
	var method jwt.SigningMethod
	var key any
	fam := family(d.Alg)
	switch d.Alg {
	case "none":
		method, key = jwt.SigningMethodNone, jwt.UnsafeAllowNoneSignatureType
	default:
		method = jwt.GetSigningMethod(d.Alg)
	}
	kid := ""
	switch fam {
	case "hmac":
		switch d.Key {
		case "configured":
			key = k.HMAC
		case "other":
			key = k.HMACOther
		case "pubpem-as-hmac":
			key = []byte(k.RSAPubPEM)
		case "empty":
			key = []byte{} // what an unset hmac_secret_key loads as
		}
		if d.Secret != "" {
			key = []byte(d.Secret)
		}
	case "rsa", "rsa-pss":
		kid = "r1"
		if d.Key == "configured" {
			key = k.RSA
		} else {
			key = k.RSAOther
		}
	case "ecdsa":
		kid = "e1"
		switch d.Alg {
		case "ES256":
			if d.Key == "configured" {
				key = k.EC256
			} else {
				key = k.EC256Other
			}
		case "ES384":
			key = k.EC384 // no configured key of this curve exists
		case "ES512":
			key = k.EC521
		}
	}
	t := jwt.NewWithClaims(method, c)
	if kid != "" {
		t.Header["kid"] = kid
	}
	s, err := t.SignedString(key)
	if err != nil {
		panic(fmt.Sprintf("mint %+v: %v", d, err))
	}
	parts := strings.Split(s, ".")
	flip := func(seg string) string {
		b, _ := base64.RawURLEncoding.DecodeString(seg)
		if len(b) == 0 {
			return "AA"
		}
		b[len(b)/2] ^= 0x01
		return b64(b)
	}
	switch d.Tamper {
	case "payload":
		// change a claim without re-signing
		var m map[string]any
		b, _ := base64.RawURLEncoding.DecodeString(parts[1])
		_ = json.Unmarshal(b, &m)
		m["extra"] = "x"
		nb, _ := json.Marshal(m)
		parts[1] = b64(nb)
	case "signature":
		parts[2] = flip(parts[2])
	case "alg-swap":
		var m map[string]any
		b, _ := base64.RawURLEncoding.DecodeString(parts[0])
		_ = json.Unmarshal(b, &m)
		if fam == "hmac" {
			m["alg"] = "RS256"
		} else {
			m["alg"] = "HS256"
		}
		nb, _ := json.Marshal(m)
		parts[0] = b64(nb)
	case "drop-segment":
		parts = parts[:2]
	case "empty":
		return ""
	}
	return strings.Join(parts, ".")
}

// Expected: must this token be accepted under the key configuration?
func (d TokenDesc) Expected(kc KeyConfig) bool {
	if d.Tamper != "none" {
		return false
	}
	fam := family(d.Alg)
	if fam == "rsa-pss" && kc.Name == "jwks" {
		// RSASSA-PSS is an algorithm of the RSA key's family; a JWK set does
		// not restrict the algorithms of its keys (the PEM configuration
		// does, to RS256/384/512)
		fam = "rsa"
	}
	if fam == "none" || fam == "rsa-pss" {
		return false
	}
	if !kc.Has(fam) {
		return false
	}
	if d.Key != "configured" {
		return false
	}
	if fam == "ecdsa" && d.Alg != "ES256" {
		return false // the configured EC key is P-256
	}
	if d.Exp == "past" || d.Nbf == "future" {
		return false
	}
	if d.ExpIn < 0 {
		return false
	}
	if kc.Audience != "" && d.Aud != "match" && d.Aud != "list" {
		return false
	}
	if kc.Issuer != "" && d.Iss != "match" {
		return false
	}
	return true
}

// ValidFor returns a plain valid token descriptor for the configuration.
func ValidFor(kc KeyConfig) TokenDesc {
	d := TokenDesc{Key: "configured", Tamper: "none", Exp: "future", Nbf: "absent", Aud: "absent", Iss: "absent"}
	switch {
	case kc.Has("hmac"):
		d.Alg = "HS256"
	case kc.Has("rsa"):
		d.Alg = "RS256"
	default:
		d.Alg = "ES256"
	}
	if kc.Audience != "" {
		d.Aud = "match"
	}
	if kc.Issuer != "" {
		d.Iss = "match"
	}
	return d
}
