package e4

import (
	"bufio"
	"crypto/tls"
	"fmt"
	"io"
	"net/http"
	"strings"
	"time"

	"github.com/gorilla/websocket"

	pikows "github.com/andydunstall/piko/pkg/websocket"
)

// Result of one client request through a proxy port.
type Result struct {
	Status   int    // HTTP status (101 for an established tunnel)
	Endpoint string // stamp: endpoint of the upstream that served it
	Upstream string
	Node     string
	Body     string
	Err      string
}

func (r Result) String() string {
	return fmt.Sprintf("status=%d stamp=%s/%s@%s err=%q", r.Status, r.Endpoint, r.Upstream, r.Node, r.Err)
}

// Addressing of a request.
type Addressing struct {
	Mode     string // "host", "header", "both", "tcp"
	Endpoint string // endpoint named by the primary mechanism
	Other    string // "both": the Host label names this other endpoint
	Forward  bool   // carries x-piko-forward: true already
	Token    string
	TokenHdr string // header carrying the token (default Authorization)
	Extra    map[string]string
	// TLS: the proxy port speaks TLS (https / wss with this client config)
	TLS *tls.Config
}

func DoHTTP(addr string, a Addressing) Result {
	scheme := "http"
	if a.TLS != nil {
		scheme = "https"
	}
	req, _ := http.NewRequest("GET", scheme+"://"+addr+"/probe", nil)
	switch a.Mode {
	case "host":
		req.Host = a.Endpoint + ".piko.test"
	case "header":
		req.Header.Set("x-piko-endpoint", a.Endpoint)
	case "both":
		req.Header.Set("x-piko-endpoint", a.Endpoint)
		req.Host = a.Other + ".piko.test"
	}
	if a.Forward {
		req.Header.Set("x-piko-forward", "true")
	}
	if a.Token != "" {
		h := a.TokenHdr
		if h == "" {
			h = "Authorization"
		}
		req.Header.Set(h, a.Token)
	}
	for k, v := range a.Extra {
		req.Header.Set(k, v)
	}
	cl := Client()
	if a.TLS != nil {
		cl.Transport = &http.Transport{DisableKeepAlives: true, Proxy: nil, TLSClientConfig: a.TLS}
	}
	resp, err := cl.Do(req)
	if err != nil {
		return Result{Err: err.Error()}
	}
	defer resp.Body.Close()
	b, _ := io.ReadAll(resp.Body)
	return Result{Status: resp.StatusCode, Endpoint: resp.Header.Get("X-Stamp-Endpoint"), Upstream: resp.Header.Get("X-Stamp-Upstream"), Node: resp.Header.Get("X-Stamp-Node"), Body: string(b)}
}

// DoTCP opens a tunnel through the TCP route and exchanges one line.
func DoTCP(addr string, a Addressing) Result {
	h := http.Header{}
	if a.Forward {
		h.Set("x-piko-forward", "true")
	}
	if a.Token != "" {
		hd := a.TokenHdr
		if hd == "" {
			hd = "Authorization"
		}
		h.Set(hd, a.Token)
	}
	for k, v := range a.Extra {
		h.Set(k, v)
	}
	d := &websocket.Dialer{HandshakeTimeout: 20 * time.Second, TLSClientConfig: a.TLS}
	wsScheme := "ws"
	if a.TLS != nil {
		wsScheme = "wss"
	}
	ws, resp, err := d.Dial(wsScheme+"://"+addr+"/_piko/v1/tcp/"+a.Endpoint, h)
	if err != nil {
		r := Result{Err: err.Error()}
		if resp != nil {
			r.Status = resp.StatusCode
			b, _ := io.ReadAll(resp.Body)
			r.Body = string(b)
			r.Err = ""
		}
		return r
	}
	c := pikows.New(ws)
	defer c.Close()
	_ = c.SetDeadline(time.Now().Add(20 * time.Second))
	if _, err := c.Write([]byte("tcp:hello\n")); err != nil {
		return Result{Status: 101, Err: "write: " + err.Error()}
	}
	line, err := bufio.NewReader(c).ReadString('\n')
	if err != nil {
		return Result{Status: 101, Err: "read: " + err.Error()}
	}
	f := strings.Fields(line)
	if len(f) < 5 || f[0] != "STAMP" || f[4] != "tcp:hello" {
		return Result{Status: 101, Err: "unexpected reply " + line}
	}
	return Result{Status: 101, Endpoint: f[1], Upstream: f[2], Node: f[3]}
}

func Do(addr string, a Addressing) Result {
	if a.Mode == "tcp" {
		return DoTCP(addr, a)
	}
	return DoHTTP(addr, a)
}
