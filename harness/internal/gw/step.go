package gw

import (
	"fmt"
	"sort"
	"strings"
	"time"

	"github.com/andydunstall/piko/pkg/gossip"
	"github.com/andydunstall/piko/server/cluster"
	"verifharness/internal/mc"
)

// views[i][id] = what node i reports about node id.
type views []map[string]*gossip.NodeState

func (w *World) snapshot() views {
	vs := make(views, len(w.nodes))
	for i, nd := range w.nodes {
		m := map[string]*gossip.NodeState{}
		for _, md := range nd.State.Nodes() {
			if ns, ok := nd.State.Node(md.ID); ok {
				m[md.ID] = ns
			}
		}
		vs[i] = m
	}
	return vs
}

func entryMap(ns *gossip.NodeState) map[string]gossip.Entry {
	m := make(map[string]gossip.Entry, len(ns.Entries))
	for _, e := range ns.Entries {
		m[e.Key] = e
	}
	return m
}

// Replay applies an event without evaluating oracles (used for the already
// checked prefix of a history).
func (w *World) Replay(e Event) { w.step(e, false) }

// Apply applies an event and evaluates every enabled oracle.
func (w *World) Apply(e Event) []mc.Violation { return w.step(e, true) }

func (w *World) step(e Event, check bool) []mc.Violation {
	w.viol = w.viol[:0]
	var pre views
	if check {
		pre = w.snapshot()
	}
	w.curPerm = 0
	w.failMask = 0
	w.curHold = e.Hold
	w.seq = 0
	w.cascade = w.cascade[:0]
	w.learned = w.learned[:0]
	var pkt *Packet
	switch e.Kind {
	case "up":
		w.nodes[e.A].G.UpsertLocal(Raw(e.K), Raw(e.V))
		w.opsUsed[e.A]++
		w.logWrites(e.A)
	case "del":
		w.nodes[e.A].G.DeleteLocal(Raw(e.K))
		w.opsUsed[e.A]++
		w.logWrites(e.A)
	case "compact":
		w.nodes[e.A].State.CompactLocal(1)
		w.opsUsed[e.A]++
		w.logWrites(e.A)
	case "addep":
		w.nodes[e.A].CS.AddLocalEndpoint(e.K)
		w.opsUsed[e.A]++
		w.logWrites(e.A)
	case "rmep":
		w.nodes[e.A].CS.RemoveLocalEndpoint(e.K)
		w.opsUsed[e.A]++
		w.logWrites(e.A)
	case "leave":
		w.failMask = e.Perm
		w.leftCalled[e.A] = true
		_ = w.nodes[e.A].G.Leave()
		w.logWrites(e.A)
		w.failMask = 0
		w.opsUsed[e.A]++
	case "join":
		var before, srcLeft map[string]bool
		if w.sc.Oracles.C11 {
			before = w.knownIDs(e.A)
		}
		_, _ = w.nodes[e.A].G.VJoin(w.nodes[e.B].Addr)
		if before != nil {
			srcLeft = map[string]bool{}
			for _, md := range w.nodes[e.B].State.Nodes() {
				srcLeft[md.ID] = md.Left
			}
			for id := range w.knownIDs(e.A) {
				if !before[id] {
					w.learned = append(w.learned, learn{o: e.A, id: id, via: "join-reply", src: e.B, srcKnewLeft: srcLeft[id]})
				}
			}
		}
		w.joinUsed++
	case "digest":
		w.curPerm = e.Perm
		md, ok := w.meta(e.A, w.nodes[e.B].ID)
		if ok {
			_ = w.nodes[e.A].G.VGossip(md)
		}
		w.digUsed++
	case "deliver", "dup":
		if e.P < len(w.inflight) {
			pkt = w.inflight[e.P]
			if e.Kind == "deliver" {
				w.inflight = append(w.inflight[:e.P:e.P], w.inflight[e.P+1:]...)
			} else {
				w.dupUsed++
			}
			w.curPerm = e.Perm
			w.deliver(pkt)
		}
	case "suspect":
		w.heard[e.A][e.B] = false
		w.nodes[e.A].fd.level[w.nodes[e.B].ID] = 1000
		w.nodes[e.A].State.UpdateLiveness(float64(gossip.VSuspicionThreshold))
		w.suspUsed++
	case "liveness":
		w.nodes[e.A].State.UpdateLiveness(float64(gossip.VSuspicionThreshold))
		// state bookkeeping happens here (replayed prefixes run no oracles)
		w.heardAtLiveness = append(w.heardAtLiveness[:0], w.heard[e.A]...)
		for x := range w.heard[e.A] {
			w.heard[e.A][x] = false
		}
	case "sweep":
		md, ok := w.meta(e.A, w.nodes[e.B].ID)
		if ok && !md.Expiry.IsZero() {
			for _, o := range w.nodes[e.A].State.Nodes() {
				if !o.Expiry.IsZero() && !o.Expiry.After(md.Expiry) {
					if x, ok := w.byID[o.ID]; ok {
						w.everExpired[e.A][x] = true
					}
				}
			}
			w.nodes[e.A].State.RemoveExpiredAt(md.Expiry.Add(time.Nanosecond))
		}
		w.sweepUsed++
	case "crash":
		w.crashed[e.A] = true
		w.crashUsed++
	case "echo":
		// node B sends node A a delta (and a digest) about A itself, ahead of A
		me := w.nodes[e.A].State.LocalNode()
		from := w.nodes[e.B]
		pre := w.snapLocal(e.A)
		if b, err := gossip.VEncodeDelta(gossip.VDeltaHeader{NodeID: from.ID, Addr: from.Addr}, gossip.VDelta{{ID: me.ID, Addr: me.Addr, Entries: []gossip.Entry{
			{Key: "a", Value: "9", Version: me.Version + 100},
			{Key: "z", Value: "1", Version: me.Version + 101},
			{Key: "b", Version: me.Version + 102, Deleted: true},
		}}}, 1400); err == nil {
			_ = w.nodes[e.A].pl.VHandlePacket(b)
		}
		if b, err := gossip.VEncodeDigest(gossip.VDigestHeader{NodeID: from.ID, Addr: from.Addr}, gossip.VDigest{{ID: me.ID, Addr: me.Addr, Version: me.Version + 200}}, 1400); err == nil {
			_ = w.nodes[e.A].pl.VHandlePacket(b)
		}
		w.cascade = nil
		w.checkLocalUnchanged(e.A, pre, "datagram about itself (from a peer that remembers an earlier incarnation)")
		w.echoUsed++
	default:
		panic("gw: unknown event " + e.Kind)
	}
	// auto-delivery: complete the round in order
	for steps := 0; len(w.cascade) > 0; steps++ {
		if steps > 64 {
			panic("gw: delivery cascade does not terminate")
		}
		p := w.cascade[0]
		w.cascade = w.cascade[1:]
		w.curPerm = e.Perm
		w.deliver(p)
	}
	if !check {
		return nil
	}
	post := w.snapshot()
	w.checkAll(pre, post, e, pkt)
	out := make([]mc.Violation, 0, len(w.viol))
	for _, v := range w.viol {
		out = append(out, mc.Violation{Property: v.prop, Clause: v.clause, Sig: v.sig, Msg: v.msg})
	}
	return out
}

func (w *World) meta(i int, id string) (gossip.NodeMetadata, bool) {
	for _, md := range w.nodes[i].State.Nodes() {
		if md.ID == id {
			return md, true
		}
	}
	return gossip.NodeMetadata{}, false
}

// holdMasks enumerates the hold decisions for an event that can produce up
// to n datagrams, within the remaining hold budget.
func (w *World) holdMasks(n int) []int {
	if w.sc.MaxHolds < 0 || n == 0 {
		return []int{0}
	}
	left := w.sc.MaxHolds - w.holdUsed
	out := []int{0}
	for m := 1; m < 1<<uint(n); m++ {
		c := 0
		for b := m; b != 0; b &= b - 1 {
			c++
		}
		if c <= left {
			out = append(out, m)
		}
	}
	return out
}

func contains2(l [][2]int, a, b int) bool {
	for _, p := range l {
		if p[0] == a && p[1] == b {
			return true
		}
	}
	return false
}

// Enabled lists the events enabled in the current state.
func (w *World) Enabled() []Event {
	sc := w.sc
	var evs []Event
	n := len(w.nodes)
	alive := func(i int) bool { return !w.crashed[i] }
	// local operations
	for i := 0; i < n; i++ {
		if !alive(i) || w.opsUsed[i] >= sc.MaxOps[i] {
			continue
		}
		for _, op := range sc.Ops[i] {
			ev := op
			ev.A = i
			if w.leftCalled[i] && op.Kind != "compact" && !(sc.WritesAfterLeave && (op.Kind == "up" || op.Kind == "del")) {
				continue // after a leave only the periodic compaction still runs
			}
			switch op.Kind {
			case "compact":
				has := false
				for _, e := range w.nodes[i].State.LocalNode().Entries {
					if e.Deleted {
						has = true
					}
				}
				if !has {
					continue
				}
			case "del":
				live := false
				for _, e := range w.nodes[i].State.LocalNode().Entries {
					if e.Key == Raw(op.K) && !e.Deleted {
						live = true
					}
				}
				if !live {
					continue
				}
			case "up":
				same := false
				for _, e := range w.nodes[i].State.LocalNode().Entries {
					if e.Key == Raw(op.K) && !e.Deleted && e.Value == Raw(op.V) {
						same = true
					}
				}
				if same {
					continue
				}
			case "rmep":
				if w.nodes[i].CS.LocalEndpointListeners(op.K) == 0 {
					continue
				}
			case "leave":
				if sc.LeaveMasks {
					// every subset of the other nodes may miss the notification
					for m := 0; m < 1<<uint(n); m++ {
						if m&(1<<uint(i)) != 0 {
							continue
						}
						e2 := ev
						e2.Perm = m
						evs = append(evs, e2)
					}
					continue
				}
			}
			evs = append(evs, ev)
		}
	}
	room := sc.MaxInflight == 0 || len(w.inflight) < sc.MaxInflight
	// gossip initiations
	if w.digUsed < sc.MaxDigests && room {
		for _, p := range sc.Digests {
			i, j := p[0], p[1]
			if !alive(i) || w.leftCalled[i] {
				continue
			}
			md, ok := w.meta(i, w.nodes[j].ID)
			if !ok || md.Left {
				continue // gossipRound only picks live or unreachable nodes
			}
			k := len(w.nodes[i].State.Nodes())
			for pm := 0; pm < permCount(sc.Perms, k); pm++ {
				for _, h := range w.holdMasks(4) {
					evs = append(evs, Event{Kind: "digest", A: i, B: j, Perm: pm, Hold: h})
				}
			}
		}
	}
	// joins
	if w.joinUsed < sc.MaxJoins {
		for _, p := range sc.Joins {
			if alive(p[0]) && !w.leftCalled[p[0]] {
				evs = append(evs, Event{Kind: "join", A: p[0], B: p[1]})
			}
		}
	}
	// deliveries
	var prev string
	for pi, p := range w.inflight {
		if p.Desc == prev {
			continue // identical datagrams are interchangeable
		}
		prev = p.Desc
		if w.crashed[p.To] {
			continue
		}
		np := 1
		if p.Digest && p.Request {
			np = permCount(sc.Perms, n)
		}
		follow := 1 // datagrams a delivery can trigger downstream
		if p.Digest {
			follow = 3
			if !p.Request {
				follow = 1
			}
		} else {
			follow = 0
		}
		for pm := 0; pm < np; pm++ {
			for _, h := range w.holdMasks(follow) {
				evs = append(evs, Event{Kind: "deliver", P: pi, Perm: pm, Hold: h})
				if w.dupUsed < sc.MaxDups {
					evs = append(evs, Event{Kind: "dup", P: pi, Perm: pm, Hold: h})
				}
			}
		}
	}
	// failure detection
	if w.suspUsed < sc.MaxSuspect {
		for _, p := range sc.Suspects {
			i, x := p[0], p[1]
			if !alive(i) {
				continue
			}
			md, ok := w.meta(i, w.nodes[x].ID)
			if ok && !md.Left && !md.Unreachable {
				evs = append(evs, Event{Kind: "suspect", A: i, B: x})
			}
		}
	}
	for i := 0; i < n; i++ {
		if !alive(i) {
			continue
		}
		for _, md := range w.nodes[i].State.Nodes() {
			heard := false
			if x, ok := w.byID[md.ID]; ok {
				heard = w.heard[i][x]
			}
			if md.Unreachable && (w.nodes[i].fd.level[md.ID] == 0 || heard) {
				evs = append(evs, Event{Kind: "liveness", A: i})
				break
			}
		}
	}
	if w.sweepUsed < sc.MaxSweeps {
		for _, i := range sc.Sweepers {
			if !alive(i) {
				continue
			}
			mds := w.nodes[i].State.Nodes()
			sort.Slice(mds, func(a, b int) bool { return mds[a].ID < mds[b].ID })
			for _, md := range mds {
				if !md.Expiry.IsZero() {
					evs = append(evs, Event{Kind: "sweep", A: i, B: w.byID[md.ID]})
				}
			}
		}
	}
	if w.echoUsed < sc.MaxEcho {
		for _, x := range sc.Echo {
			for j := range w.nodes {
				if j != x && alive(x) {
					evs = append(evs, Event{Kind: "echo", A: x, B: j})
					break
				}
			}
		}
	}
	if w.crashUsed < sc.MaxCrash {
		for _, x := range sc.Crash {
			if alive(x) {
				evs = append(evs, Event{Kind: "crash", A: x})
			}
		}
	}
	return evs
}

// Canon is the canonical key of the state: everything the handlers can read,
// obtained through public observers, plus the remaining budgets.
func (w *World) Canon() string {
	var sb strings.Builder
	for i, nd := range w.nodes {
		mds := nd.State.Nodes()
		sort.Slice(mds, func(a, b int) bool { return mds[a].ID < mds[b].ID })
		// expiry ranks
		var exps []time.Time
		for _, md := range mds {
			if !md.Expiry.IsZero() {
				exps = append(exps, md.Expiry)
			}
		}
		sort.Slice(exps, func(a, b int) bool { return exps[a].Before(exps[b]) })
		fmt.Fprintf(&sb, "N%d c=%v l=%v ops=%d|", i, w.crashed[i], w.leftCalled[i], w.opsUsed[i])
		for _, md := range mds {
			ns, _ := nd.State.Node(md.ID)
			rank := -1
			for r, t := range exps {
				if t.Equal(md.Expiry) {
					rank = r
				}
			}
			fmt.Fprintf(&sb, "%s a=%s x=%d fd=%v;", descNode(ns), md.Addr, rank, nd.fd.level[md.ID] > 0)
		}
		if nd.CS != nil {
			sb.WriteString("|P:")
			for _, p := range nd.Syn.VPending() {
				sb.WriteString(descClusterNode(p))
			}
			sb.WriteString("|T:")
			ns := nd.CS.Nodes()
			sort.Slice(ns, func(a, b int) bool { return ns[a].ID < ns[b].ID })
			for _, p := range ns {
				sb.WriteString(descClusterNode(p))
			}
		}
		for x, ex := range w.everExpired[i] {
			if ex {
				fmt.Fprintf(&sb, "|E%d", x)
			}
			if w.heard[i][x] {
				fmt.Fprintf(&sb, "|H%d", x)
			}
		}
		sb.WriteString("\n")
	}
	for _, p := range w.inflight {
		sb.WriteString(p.Desc)
		sb.WriteString("\n")
	}
	fmt.Fprintf(&sb, "B d=%d u=%d j=%d s=%d w=%d c=%d h=%d", w.digUsed, w.dupUsed, w.joinUsed, w.suspUsed, w.sweepUsed, w.crashUsed*10+w.echoUsed, w.holdUsed)
	return sb.String()
}

func descClusterNode(n *cluster.Node) string {
	var eps []string
	for e, c := range n.Endpoints {
		eps = append(eps, fmt.Sprintf("%s=%d", e, c))
	}
	sort.Strings(eps)
	return fmt.Sprintf("(%s %s %s %s %v)", n.ID, n.Status, n.ProxyAddr, n.AdminAddr, eps)
}
