package gw

import (
	"fmt"
	"sort"
	"strconv"
	"strings"

	"github.com/andydunstall/piko/pkg/gossip"
	"github.com/andydunstall/piko/server/cluster"
)

func (w *World) checkAll(pre, post views, e Event, pkt *Packet) {
	o := w.sc.Oracles
	w.vacuity(pre, post, e, pkt)
	if o.C02 {
		w.checkC02(pre, post)
	}
	if o.C14 {
		w.checkC14(post)
	}
	if o.C11 {
		w.checkC11(pre, post, e, pkt)
	}
	if o.C04 && w.sc.Routing {
		w.checkC04(post)
	}
}

// vacuity counters: which mechanisms did this transition exercise?
func (w *World) vacuity(pre, post views, e Event, pkt *Packet) {
	st := w.Stats
	if st == nil {
		return
	}
	if pkt != nil && !pkt.Digest {
		_, d, err := gossip.VDecodeDelta(pkt.Data)
		if err == nil {
			to := pkt.To
			for _, de := range d {
				x, ok := w.byID[de.ID]
				if !ok || x == to {
					continue
				}
				pv := pre[to][de.ID]
				var pvv uint64
				if pv != nil {
					pvv = pv.Version
				}
				for _, en := range de.Entries {
					if en.Version <= pvv {
						st.add(&st.StaleDiscarded, 1)
					} else if x != pkt.From {
						st.add(&st.RelayLearned, 1)
					}
					if en.Internal && en.Key == gossip.VCompactKey && en.Version > pvv {
						st.add(&st.MarkersApplied, 1)
						c, _ := strconv.ParseUint(en.Value, 10, 64)
						if pv != nil {
							for _, pe := range pv.Entries {
								if !pe.Deleted && !pe.Internal && pe.Version <= c {
									// live at the observer, removed only by the marker
									gone := true
									for _, ne := range de.Entries {
										if ne.Key == pe.Key && ne.Version > pvv {
											gone = false
										}
									}
									if gone {
										st.add(&st.CompactOnlyDel, 1)
									}
								}
							}
						}
					}
				}
				// truncated: the sender held more for this node than it sent
				if sv := w.lastSenderView(pkt.From, de.ID); sv != nil && len(de.Entries) > 0 {
					last := de.Entries[len(de.Entries)-1].Version
					if sv.Version > last {
						st.add(&st.TruncatedDeltas, 1)
					}
				}
			}
		}
	}
	for i := range post {
		for id, ns := range post[i] {
			p := pre[i][id]
			if p == nil {
				if x, ok := w.byID[id]; ok && w.everExpired[i][x] {
					st.add(&st.Relearned, 1)
				}
				continue
			}
			if ns.Left && !p.Left {
				st.add(&st.LeavesSeen, 1)
			}
			if ns.Unreachable && !p.Unreachable {
				st.add(&st.Unreachables, 1)
			}
		}
	}
}

func (w *World) lastSenderView(from int, id string) *gossip.NodeState {
	ns, _ := w.nodes[from].State.Node(id)
	return ns
}

// ---------------------------------------------------------------------------
// C02: nothing lost, fabricated or rolled back

func (w *World) checkC02(pre, post views) {
	for o := range post {
		for id, v := range post[o] {
			x, ok := w.byID[id]
			if !ok {
				w.violate("C02", "fabricated", "fabricated-node", "node %s knows a node %q that does not exist", w.nodes[o].ID, id)
				continue
			}
			if x == o {
				continue
			}
			owner := w.nodes[x].State.LocalNode()
			if v.Addr != owner.Addr {
				w.violate("C02", "fabricated", "wrong-address", "%s reports %s at %s, owner is at %s", w.nodes[o].ID, id, v.Addr, owner.Addr)
			}
			if v.Version > owner.Version {
				w.violate("C02", "version-ahead", "view-ahead-of-owner", "%s reports %s at version %d, owner is at %d", w.nodes[o].ID, id, v.Version, owner.Version)
			}
			if p := pre[o][id]; p != nil && v.Version < p.Version {
				w.violate("C02", "rollback", "version-rollback", "%s view of %s went from version %d back to %d", w.nodes[o].ID, id, p.Version, v.Version)
			}
			vm := entryMap(v)
			om := entryMap(owner)
			for _, e := range v.Entries {
				if !w.writeLog[x][e] {
					w.violate("C02", "fabricated", "fabricated-entry", "%s holds entry %s for %s that the owner never wrote", w.nodes[o].ID, descEntry(e), id)
				}
				if e.Version > v.Version {
					w.violate("C02", "version-ahead", "entry-above-view-version", "%s holds entry %s for %s above its reported version %d", w.nodes[o].ID, descEntry(e), id, v.Version)
				}
			}
			var ownerMarker uint64
			if m, ok := om[gossip.VCompactKey]; ok {
				ownerMarker = m.Version
			}
			for _, e := range owner.Entries {
				if e.Version > v.Version {
					continue
				}
				if got, ok := vm[e.Key]; !ok || got != e {
					have := "nothing"
					if ok {
						have = descEntry(got)
					}
					w.violate("C02", "lost", "missing-or-stale-entry", "%s reports %s at version %d but for key %q shows %s, owner has %s", w.nodes[o].ID, id, v.Version, e.Key, have, descEntry(e))
				}
			}
			if m, ok := vm[gossip.VCompactKey]; ok {
				c, err := strconv.ParseUint(m.Value, 10, 64)
				if err == nil {
					for _, e := range v.Entries {
						if e.Key != gossip.VCompactKey && e.Version <= c {
							w.violate("C02", "lost", "stale-after-compaction", "%s holds %s for %s although it applied the compaction marker %d", w.nodes[o].ID, descEntry(e), id, c)
						}
					}
				}
			}
			for _, e := range v.Entries {
				if _, ok := om[e.Key]; !ok && !e.Deleted && v.Version >= ownerMarker && ownerMarker > 0 {
					w.violate("C02", "lost", "deleted-key-still-visible", "%s still shows %s for %s at version %d >= the owner's compaction marker %d", w.nodes[o].ID, descEntry(e), id, v.Version, ownerMarker)
				}
			}
		}
	}
}

// ---------------------------------------------------------------------------
// C14: the fold of watcher notifications equals the visible state

func (w *World) project(i int, v map[string]*gossip.NodeState) string {
	var ids []string
	for id := range v {
		if id != w.nodes[i].ID {
			ids = append(ids, id)
		}
	}
	sort.Strings(ids)
	var sb strings.Builder
	for _, id := range ids {
		n := v[id]
		sb.WriteString(id)
		if n.Left {
			sb.WriteString(" L")
		}
		if n.Unreachable {
			sb.WriteString(" U")
		}
		var ks []string
		m := map[string]string{}
		for _, e := range n.Entries {
			if !e.Deleted && !e.Internal {
				ks = append(ks, e.Key)
				m[e.Key] = e.Value
			}
		}
		sort.Strings(ks)
		sb.WriteString(" {")
		for _, k := range ks {
			fmt.Fprintf(&sb, "%s=%q ", k, m[k])
		}
		sb.WriteString("}; ")
	}
	return sb.String()
}

func (w *World) checkC14(post views) {
	for i, nd := range w.nodes {
		if len(nd.rec.bad) > 0 {
			w.violate("C14", "order", "notification-before-join", "watcher of %s: %s", nd.ID, strings.Join(nd.rec.bad, "; "))
			nd.rec.bad = nil
		}
		want := w.project(i, post[i])
		got := nd.rec.desc()
		if want != got {
			w.violate("C14", "fold", "fold-differs-from-view", "watcher fold of %s = [%s] but visible state = [%s]", nd.ID, got, want)
		}
	}
}

// ---------------------------------------------------------------------------
// C11: membership lifecycle

func (w *World) checkC11(pre, post views, e Event, pkt *Packet) {
	for i, nd := range w.nodes {
		self := post[i][nd.ID]
		if self == nil {
			w.violate("C11", "local", "local-node-removed", "%s no longer lists itself", nd.ID)
			continue
		}
		if self.Unreachable {
			w.violate("C11", "local", "local-node-unreachable", "%s marks itself unreachable", nd.ID)
		}
		if self.Left && !w.leftCalled[i] {
			w.violate("C11", "local", "local-node-left-by-others", "%s is marked left in its own state without having left", nd.ID)
		}
		if !self.Expiry.IsZero() {
			w.violate("C11", "local", "local-node-expiring", "%s has an expiry on its own entry", nd.ID)
		}
		for id, v := range post[i] {
			x, ok := w.byID[id]
			if !ok || x == i {
				continue
			}
			p := pre[i][id]
			if p != nil {
				if p.Left && !v.Left {
					w.violate("C11", "left-sticky", "left-reverted", "%s: %s went from left back to not left", nd.ID, id)
				}
				if v.Left && !w.leftCalled[x] {
					w.violate("C11", "left-origin", "left-declared-by-other", "%s marks %s left although it never left", nd.ID, id)
				}
			}
			// seen as left by every node that learns of it: an observer that
			// has caught up with everything the leaver published sees it as left
			if w.leftCalled[x] && !v.Left {
				if owner := w.nodes[x].State.LocalNode(); owner.Left && v.Version == owner.Version {
					w.violate("C11", "left-seen", "caught-up-with-leaver-but-not-left", "%s has caught up with %s (version %d), which left, but does not see it as left", nd.ID, id, v.Version)
				}
			}
			if p != nil {
				continue
			}
			// newly learned: judged below from the message that taught it
			if v.Left && !w.leftCalled[x] {
				w.violate("C11", "left-origin", "left-declared-by-other", "%s marks %s left although it never left", nd.ID, id)
			}
		}
		// flags imply expiry bookkeeping
		for id, v := range post[i] {
			if id == nd.ID {
				continue
			}
			if (v.Left || v.Unreachable) && v.Expiry.IsZero() {
				w.violate("C11", "expiry", "flagged-without-expiry", "%s: %s is left/unreachable but will never expire", nd.ID, id)
			}
			if !v.Left && !v.Unreachable && !v.Expiry.IsZero() {
				w.violate("C11", "expiry", "live-node-expiring", "%s: %s is live but has an expiry", nd.ID, id)
			}
		}
	}
	if w.sc.Routing {
		// a node flagged left or unreachable is excluded from routing
		for o, nd := range w.nodes {
			for _, ep := range w.endpointAlphabet() {
				for rep := 0; rep < 3; rep++ {
					if n, ok := nd.CS.LookupEndpoint(ep); ok {
						if v := post[o][n.ID]; v == nil || v.Left || v.Unreachable {
							w.violate("C11", "routing", "flagged-node-routable", "%s routes %s to %s although it is left/unreachable/forgotten", nd.ID, ep, n.ID)
						}
					}
				}
			}
		}
	}
	for _, l := range w.learned {
		x, ok := w.byID[l.id]
		if !ok {
			continue
		}
		v := post[l.o][l.id]
		if v == nil {
			continue // learned and forgotten within the same event
		}
		who := w.nodes[l.o].ID
		if l.src == x {
			continue // heard from the node itself: it really is there
		}
		if l.srcKnewLeft && !v.Left {
			w.violate("C11", "relearn-left", "relearned-left-node-as-live:"+l.via, "%s learned %s as a live node via %s from %s, which knew it had left", who, l.id, l.via, w.nodes[l.src].ID)
		} else if (w.crashed[x] || w.leftCalled[x]) && w.everExpired[l.o][x] {
			w.violate("C11", "stay-forgotten", "relearn-after-expiry:"+l.via, "%s had expired %s (gone for good) and re-learned it via %s from %s", who, l.id, l.via, w.nodes[l.src].ID)
		}
	}
	if e.Kind == "liveness" {
		// restored if it is heard from again: a delta datagram from x reached
		// this node after it was marked unreachable, and liveness was
		// re-evaluated
		i := e.A
		for x, h := range w.heardAtLiveness {
			if !h {
				continue
			}
			if v := post[i][w.nodes[x].ID]; v != nil && v.Unreachable && !v.Left {
				w.violate("C11", "recover", "heard-from-but-still-unreachable", "%s received a datagram from %s after marking it unreachable, re-evaluated liveness, and still marks it unreachable", w.nodes[i].ID, w.nodes[x].ID)
			}
		}
		// ... and only then: what a third node relays about x says nothing about
		// x being alive
		for x, h := range w.heardAtLiveness {
			id := w.nodes[x].ID
			p, v := pre[i][id], post[i][id]
			if !h && p != nil && v != nil && p.Unreachable && !v.Unreachable {
				w.violate("C11", "recover", "restored-without-being-heard", "%s restored %s (reachable again, expiry cleared) although no datagram from %s has reached it since it was marked unreachable", w.nodes[i].ID, id, id)
			}
		}
	}
	if e.Kind == "sweep" {
		i := e.A
		if p := pre[i][w.nodes[e.B].ID]; p != nil && !p.Expiry.IsZero() {
			for id, pv := range pre[i] {
				if pv.Expiry.IsZero() || pv.Expiry.After(p.Expiry) {
					continue
				}
				if _, still := post[i][id]; still {
					w.violate("C11", "expiry", "expired-node-kept", "%s swept past the expiry of %s but still lists it", w.nodes[i].ID, id)
				}
				if _, still := w.nodes[i].rec.nodes[id]; still {
					w.violate("C11", "expiry", "expiry-not-announced", "%s removed %s without OnExpired", w.nodes[i].ID, id)
				}
				if w.nodes[i].CS != nil {
					if _, still := w.nodes[i].CS.Node(id); still {
						w.violate("C11", "expiry", "expired-node-in-routing-table", "%s expired %s but the routing table still lists it", w.nodes[i].ID, id)
					}
					for _, pn := range w.nodes[i].Syn.VPending() {
						if pn.ID == id {
							w.violate("C11", "expiry", "expired-node-pending", "%s expired %s but it is still pending", w.nodes[i].ID, id)
						}
					}
				}
			}
			// nothing else may be removed
			for id := range pre[i] {
				pv := pre[i][id]
				if _, still := post[i][id]; !still && (pv.Expiry.IsZero() || pv.Expiry.After(p.Expiry)) {
					w.violate("C11", "expiry", "unexpired-node-removed", "%s removed %s before its expiry", w.nodes[i].ID, id)
				}
			}
		}
	} else {
		for i := range pre {
			for id := range pre[i] {
				if _, still := post[i][id]; !still {
					w.violate("C11", "expiry", "node-removed-without-expiry", "%s forgot %s on event %s", w.nodes[i].ID, id, e)
				}
			}
		}
	}
}

// ---------------------------------------------------------------------------
// C04: the routing table mirrors what each node advertises

func (w *World) checkC04(post views) {
	eps := w.endpointAlphabet()
	for o, nd := range w.nodes {
		for id, v := range post[o] {
			x, ok := w.byID[id]
			if !ok || x == o {
				continue
			}
			owner := w.nodes[x].State.LocalNode()
			if v.Version != owner.Version {
				continue
			}
			// caught up with everything the owner published
			want := w.nodes[x].CS.LocalNode()
			got, ok := nd.CS.Node(id)
			if w.anyExpired(x) && w.hasHole(v, owner) {
				// finding F3: the gossip view itself skipped entries because a
				// delta computed against a digest sent before the node was
				// forgotten was applied afterwards (at this observer, or at the
				// peer this observer copied its view from)
				if !ok || !sameEndpoints(got.Endpoints, want.Endpoints) {
					w.violate("C04", "mirror", "stale-delta-after-expiry-leaves-hole", "%s forgot %s, then applied a delta computed for its old view: it reports version %d but holds %s, owner has %s", nd.ID, id, v.Version, descNode(v), descNode(owner))
				}
				continue
			}
			if !ok {
				w.violate("C04", "mirror", "caught-up-node-missing", "%s has caught up with %s (version %d) but its routing table does not list it", nd.ID, id, v.Version)
				continue
			}
			if got.ProxyAddr != want.ProxyAddr || got.AdminAddr != want.AdminAddr {
				w.violate("C04", "mirror", "wrong-addresses", "%s lists %s with addresses %s/%s, owner advertises %s/%s", nd.ID, id, got.ProxyAddr, got.AdminAddr, want.ProxyAddr, want.AdminAddr)
			}
			if !sameEndpoints(got.Endpoints, want.Endpoints) {
				w.violate("C04", "mirror", "endpoints-differ", "%s has caught up with %s (version %d) but lists endpoints %v, owner has %v", nd.ID, id, v.Version, got.Endpoints, want.Endpoints)
			}
			wantStatus := cluster.NodeStatusActive
			if v.Left {
				wantStatus = cluster.NodeStatusLeft
			} else if v.Unreachable {
				wantStatus = cluster.NodeStatusUnreachable
			}
			if got.Status != wantStatus {
				w.violate("C04", "status", "status-differs", "%s lists %s as %s but gossip says %s", nd.ID, id, got.Status, wantStatus)
			}
		}
		// lookups
		for _, ep := range eps {
			qualifies := map[string]bool{}
			for _, tn := range nd.CS.Nodes() {
				if tn.ID != nd.ID && tn.Status == cluster.NodeStatusActive && tn.Endpoints[ep] > 0 {
					if v := post[o][tn.ID]; v != nil && !v.Left && !v.Unreachable {
						qualifies[tn.ID] = true
					}
				}
			}
			for rep := 0; rep < 3; rep++ {
				n, ok := nd.CS.LookupEndpoint(ep)
				if ok && !qualifies[n.ID] {
					w.violate("C04", "lookup", "lookup-returned-unqualified-node", "%s LookupEndpoint(%s) returned %s which is not an active remote node advertising it", nd.ID, ep, n.ID)
				}
				if !ok && len(qualifies) > 0 {
					w.violate("C04", "lookup", "lookup-missed-node", "%s LookupEndpoint(%s) found nothing although %v qualify", nd.ID, ep, qualifies)
				}
			}
		}
	}
}

// anyExpired: some node has expired x at some point of this history.
func (w *World) anyExpired(x int) bool {
	for o := range w.everExpired {
		if w.everExpired[o][x] {
			return true
		}
	}
	return false
}

// hasHole: the view claims version v but lacks entries the owner holds at or
// below v.
func (w *World) hasHole(v, owner *gossip.NodeState) bool {
	vm := entryMap(v)
	for _, e := range owner.Entries {
		if e.Version <= v.Version {
			if got, ok := vm[e.Key]; !ok || got != e {
				return true
			}
		}
	}
	return false
}

func sameEndpoints(a, b map[string]int) bool {
	n := 0
	for k, v := range a {
		if v == 0 {
			continue
		}
		n++
		if b[k] != v {
			return false
		}
	}
	m := 0
	for _, v := range b {
		if v != 0 {
			m++
		}
	}
	return n == m
}

func (w *World) endpointAlphabet() []string {
	seen := map[string]bool{}
	var out []string
	for _, ops := range w.sc.Ops {
		for _, op := range ops {
			if (op.Kind == "addep" || op.Kind == "rmep") && !seen[op.K] {
				seen[op.K] = true
				out = append(out, op.K)
			}
		}
	}
	for _, e := range w.sc.Init {
		if e.Kind == "addep" && !seen[e.K] {
			seen[e.K] = true
			out = append(out, e.K)
		}
	}
	sort.Strings(out)
	return out
}
