package gw

import (
	"fmt"
	"sort"
	"strings"
	"sync/atomic"

	"github.com/andydunstall/piko/pkg/log"
)

var nopLogger = log.NewNopLogger()

// Stats are vacuity counters shared by all worlds of one exploration.
type Stats struct {
	PacketsSent      int64
	TruncatedDigests int64
	TruncatedDeltas  int64
	EmptyDeltas      int64
	RelayLearned     int64 // entries applied by an observer from a non-owner
	MarkersApplied   int64 // compaction markers applied by an observer
	CompactOnlyDel   int64 // live keys removed at an observer by a marker
	StaleDiscarded   int64 // delivered entries at or below the known version
	Relearned        int64 // node re-learned after having been expired
	LeavesSeen       int64
	Unreachables     int64
	Promotions       int64
	PendingEndpoint  int64 // endpoint notification while node pending
	ClosureRuns      int64
	ClosureRoundsMax int64
	ClosureDiverged  int64 // closures that started from a divergent state
}

func (s *Stats) add(p *int64, n int64) {
	if s != nil {
		atomic.AddInt64(p, n)
	}
}

func (s *Stats) max(p *int64, n int64) {
	if s == nil {
		return
	}
	for {
		o := atomic.LoadInt64(p)
		if n <= o || atomic.CompareAndSwapInt64(p, o, n) {
			return
		}
	}
}

type shadowNode struct {
	keys        map[string]string
	left        bool
	unreachable bool
}

// recorder folds watcher notifications into a shadow of the visible state.
type recorder struct {
	self  string
	nodes map[string]*shadowNode
	bad   []string // protocol errors: notification for a node not announced
	n     int
}

func newRecorder(self string) *recorder {
	return &recorder{self: self, nodes: map[string]*shadowNode{}}
}

func (r *recorder) get(id, what string) *shadowNode {
	r.n++
	n, ok := r.nodes[id]
	if !ok {
		r.bad = append(r.bad, fmt.Sprintf("%s for %s before OnJoin", what, id))
		return nil
	}
	return n
}

func (r *recorder) OnJoin(id string) {
	r.n++
	if _, ok := r.nodes[id]; ok {
		r.bad = append(r.bad, "duplicate OnJoin for "+id)
		return
	}
	r.nodes[id] = &shadowNode{keys: map[string]string{}}
}
func (r *recorder) OnLeave(id string) {
	if n := r.get(id, "OnLeave"); n != nil {
		n.left = true
	}
}
func (r *recorder) OnReachable(id string) {
	if n := r.get(id, "OnReachable"); n != nil {
		n.unreachable = false
	}
}
func (r *recorder) OnUnreachable(id string) {
	if n := r.get(id, "OnUnreachable"); n != nil {
		n.unreachable = true
	}
}
func (r *recorder) OnUpsertKey(id, k, v string) {
	if n := r.get(id, "OnUpsertKey"); n != nil {
		n.keys[k] = v
	}
}
func (r *recorder) OnDeleteKey(id, k string) {
	if n := r.get(id, "OnDeleteKey"); n != nil {
		delete(n.keys, k)
	}
}
func (r *recorder) OnExpired(id string) {
	if n := r.get(id, "OnExpired"); n != nil {
		delete(r.nodes, id)
	}
}

func (r *recorder) desc() string {
	var ids []string
	for id := range r.nodes {
		ids = append(ids, id)
	}
	sort.Strings(ids)
	var sb strings.Builder
	for _, id := range ids {
		n := r.nodes[id]
		fmt.Fprintf(&sb, "%s", id)
		if n.left {
			sb.WriteString(" L")
		}
		if n.unreachable {
			sb.WriteString(" U")
		}
		var ks []string
		for k := range n.keys {
			ks = append(ks, k)
		}
		sort.Strings(ks)
		sb.WriteString(" {")
		for _, k := range ks {
			fmt.Fprintf(&sb, "%s=%q ", k, n.keys[k])
		}
		sb.WriteString("}; ")
	}
	return sb.String()
}
