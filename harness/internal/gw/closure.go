package gw

import (
	"fmt"
	"sort"

	"github.com/andydunstall/piko/pkg/gossip"
	"verifharness/internal/mc"
)

// Final runs the fair closure (C03) when the scenario asks for it. It
// destroys the world.
func (w *World) Final() []mc.Violation {
	if !w.sc.Closure {
		return nil
	}
	w.viol = w.viol[:0]
	w.closure()
	out := make([]mc.Violation, 0, len(w.viol))
	for _, v := range w.viol {
		out = append(out, mc.Violation{Property: v.prop, Clause: v.clause, Sig: v.sig, Msg: v.msg})
	}
	return out
}

func (w *World) liveSet() []int {
	var live []int
	for i := range w.nodes {
		if !w.crashed[i] && !w.leftCalled[i] {
			live = append(live, i)
		}
	}
	return live
}

// exchange performs one complete push-pull round i -> j with reliable
// in-order delivery: digest request, delta + digest reply, delta.
func (w *World) exchange(i, j, perm int) bool {
	md, ok := w.meta(i, w.nodes[j].ID)
	if !ok || md.Left {
		return false
	}
	w.inflight = w.inflight[:0]
	w.curPerm = perm
	if err := w.nodes[i].G.VGossip(md); err != nil {
		return false
	}
	// deliver until quiescent; each delivery may enqueue replies
	for steps := 0; len(w.inflight) > 0 && steps < 16; steps++ {
		p := w.inflight[0]
		w.inflight = w.inflight[1:]
		w.curPerm = perm
		w.deliver(p)
	}
	return true
}

func (w *World) viewsKey(live []int) string {
	s := ""
	for _, i := range live {
		mds := w.nodes[i].State.Nodes()
		sort.Slice(mds, func(a, b int) bool { return mds[a].ID < mds[b].ID })
		for _, md := range mds {
			ns, _ := w.nodes[i].State.Node(md.ID)
			s += descNode(ns) + ";"
		}
		s += "|"
	}
	return s
}

// closure: heal, drop in-flight datagrams, then rounds of complete exchanges
// between every ordered pair of live nodes until a fixpoint; then every live
// node's view of every live node in its component must equal the owner's
// state, and the number of rounds must stay within the bound.
func (w *World) closure() {
	n := len(w.nodes)
	for i := range w.blocked {
		for j := range w.blocked[i] {
			w.blocked[i][j] = false
		}
	}
	w.inflight = nil
	w.inClosure = true
	live := w.liveSet()
	if len(live) < 2 {
		return
	}
	w.Stats.add(&w.Stats.ClosureRuns, 1)
	// how much is missing at the start?
	missing := 0
	diverged := false
	for _, o := range live {
		for _, x := range live {
			if o == x {
				continue
			}
			owner := w.nodes[x].State.LocalNode()
			v, ok := w.nodes[o].State.Node(owner.ID)
			if !ok {
				missing += len(owner.Entries) + 1
				diverged = true
				continue
			}
			if descNode(v) != descNode(owner) {
				diverged = true
			}
			for _, e := range owner.Entries {
				if e.Version > v.Version {
					missing++
				}
			}
		}
	}
	if diverged {
		w.Stats.add(&w.Stats.ClosureDiverged, 1)
	}
	bound := (missing + n) * n
	if bound < 2*n {
		bound = 2 * n
	}
	nperm := permCount(w.sc.Perms, n)
	if nperm < n {
		nperm = n // always rotate the pair order
	}
	stable := 0
	rounds := 0
	prev := w.viewsKey(live)
	for rounds < bound+nperm+2 {
		r := rounds
		rounds++
		order := make([][2]int, 0, len(live)*len(live))
		for a := range live {
			for b := range live {
				if a != b {
					order = append(order, [2]int{live[(a+r)%len(live)], live[(b+r)%len(live)]})
				}
			}
		}
		if r%2 == 1 {
			for a, b := 0, len(order)-1; a < b; a, b = a+1, b-1 {
				order[a], order[b] = order[b], order[a]
			}
		}
		for _, p := range order {
			w.exchange(p[0], p[1], r)
		}
		cur := w.viewsKey(live)
		if cur == prev {
			stable++
			if stable >= nperm {
				break
			}
		} else {
			stable = 0
		}
		prev = cur
	}
	used := rounds - stable
	w.Stats.max(&w.Stats.ClosureRoundsMax, int64(used))
	// components of the "knows" graph over live nodes
	comp := make([]int, n)
	for i := range comp {
		comp[i] = i
	}
	var find func(int) int
	find = func(a int) int {
		for comp[a] != a {
			a = comp[a]
		}
		return a
	}
	for _, i := range live {
		for _, j := range live {
			if i == j {
				continue
			}
			if md, ok := w.meta(i, w.nodes[j].ID); ok && !md.Left {
				comp[find(i)] = find(j)
			}
		}
	}
	for _, o := range live {
		for _, x := range live {
			if o == x || find(o) != find(x) {
				continue
			}
			owner := w.nodes[x].State.LocalNode()
			v, ok := w.nodes[o].State.Node(owner.ID)
			if !ok {
				w.violate("C03", "converge", "node-never-learned", "after the closure %s still does not know %s", w.nodes[o].ID, owner.ID)
				continue
			}
			if descNode(stripFlags(v)) != descNode(stripFlags(owner)) {
				sig := "views-differ-after-closure"
				if w.blockedByOversize(o, x) {
					sig = "oversize-entry-blocks-delta"
				}
				w.violate("C03", "converge", sig, "after %d rounds of complete exchanges %s sees %s but the owner is %s", rounds, w.nodes[o].ID, descNode(v), descNode(owner))
			}
		}
	}
	if len(w.viol) == 0 && used > bound {
		w.violate("C03", "bounded", "too-many-rounds", "convergence needed %d rounds, bound %d (missing entries %d)", used, bound, missing)
	}
}

// stripFlags removes the observer-local unreachable flag (the owner never
// has it on itself) before comparing a view with the owner's state.
func stripFlags(n *gossip.NodeState) *gossip.NodeState {
	c := *n
	c.Unreachable = false
	return &c
}

// blockedByOversize reports whether the next entry that o is missing from x
// cannot be carried by any single datagram (finding F1).
func (w *World) blockedByOversize(o, x int) bool {
	owner := w.nodes[x].State.LocalNode()
	v, ok := w.nodes[o].State.Node(owner.ID)
	if !ok {
		return false
	}
	es := append([]gossip.Entry(nil), owner.Entries...)
	sort.Slice(es, func(i, j int) bool { return es[i].Version < es[j].Version })
	for _, e := range es {
		if e.Version <= v.Version {
			continue
		}
		b, err := gossip.VEncodeDelta(gossip.VDeltaHeader{NodeID: owner.ID, Addr: owner.Addr},
			gossip.VDelta{{ID: owner.ID, Addr: owner.Addr, Entries: []gossip.Entry{e}}}, 1<<20)
		if err != nil {
			return false
		}
		return len(b) > w.sc.MaxPacket
	}
	return false
}

var _ = fmt.Sprintf
