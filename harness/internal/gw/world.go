// Package gw builds a small gossip cluster out of the real piko components
// (clusterState, packetListener, streamListener, Gossip, and optionally the
// routing syncer + cluster.State) with every source of nondeterminism owned
// by the caller: the network is a set of in-flight datagrams, streams are
// synchronous in-memory connections, the failure detector is a table, and
// time only enters through the order of expiries.
package gw

import (
	"bytes"
	"errors"
	"fmt"
	"io"
	"net"
	"sort"
	"strings"
	"sync"
	"sync/atomic"
	"time"

	"github.com/andydunstall/piko/pkg/gossip"
	"github.com/andydunstall/piko/server/cluster"
	sgossip "github.com/andydunstall/piko/server/gossip"
)

// Event is one step of the explorer.
type Event struct {
	Kind string `json:"kind"`
	A    int    `json:"a"`           // acting node
	B    int    `json:"b,omitempty"` // target node
	K    string `json:"k,omitempty"`
	V    string `json:"v,omitempty"`
	P    int    `json:"p,omitempty"`    // index into the canonical in-flight list
	Perm int    `json:"perm,omitempty"` // digest permutation / leave fail-mask
	// Hold (auto-delivery scenarios): bit b set = the b-th datagram produced
	// by this event is held in flight instead of being delivered at once.
	Hold int `json:"hold,omitempty"`
}

func (e Event) String() string {
	switch e.Kind {
	case "up":
		return fmt.Sprintf("up(%d,%s=%q)", e.A, e.K, e.V)
	case "del":
		return fmt.Sprintf("del(%d,%s)", e.A, e.K)
	case "compact", "crash", "liveness", "addnode":
		return fmt.Sprintf("%s(%d)", e.Kind, e.A)
	case "leave":
		return fmt.Sprintf("leave(%d,failmask=%b)", e.A, e.Perm)
	case "join", "suspect", "sweep":
		return fmt.Sprintf("%s(%d,%d)", e.Kind, e.A, e.B)
	case "digest":
		return fmt.Sprintf("digest(%d->%d,perm=%d,hold=%b)", e.A, e.B, e.Perm, e.Hold)
	case "deliver", "dup":
		return fmt.Sprintf("%s(#%d,perm=%d,hold=%b)", e.Kind, e.P, e.Perm, e.Hold)
	case "addep", "rmep":
		return fmt.Sprintf("%s(%d,%s)", e.Kind, e.A, e.K)
	}
	return fmt.Sprintf("%s(%d,%d,%s,%s,%d,%d)", e.Kind, e.A, e.B, e.K, e.V, e.P, e.Perm)
}

// Packet is one in-flight datagram.
type Packet struct {
	From, To int
	Data     []byte
	Desc     string // canonical decoded form
	Digest   bool
	Request  bool
	// SrcLeft: the nodes the sender itself listed as left when it produced
	// the datagram (its state, not what the datagram says about them)
	SrcLeft map[string]bool
}

type fakeFD struct{ level map[string]float64 }

func (f *fakeFD) Report(id string)                 { f.level[id] = 0 }
func (f *fakeFD) SuspicionLevel(id string) float64 { return f.level[id] }
func (f *fakeFD) Remove(id string)                 { delete(f.level, id) }

// capConn is the net.PacketConn handed to the real code; it never reads.
type capConn struct {
	w    *World
	node int
}

func (c *capConn) ReadFrom(p []byte) (int, net.Addr, error) { return 0, nil, net.ErrClosed }
func (c *capConn) WriteTo(p []byte, addr net.Addr) (int, error) {
	c.w.onSend(c.node, addr.String(), append([]byte(nil), p...))
	return len(p), nil
}
func (c *capConn) Close() error                       { return nil }
func (c *capConn) LocalAddr() net.Addr                { return &net.UDPAddr{} }
func (c *capConn) SetDeadline(t time.Time) error      { return nil }
func (c *capConn) SetReadDeadline(t time.Time) error  { return nil }
func (c *capConn) SetWriteDeadline(t time.Time) error { return nil }

// memConn is the client side of a synchronous in-memory stream: everything
// written is buffered; the first Read runs the peer's real stream handler on
// the buffered request and then serves its reply.
type memConn struct {
	w      *World
	from   int
	peer   int
	req    bytes.Buffer
	resp   bytes.Buffer
	served bool
	hErr   error
}

type srvConn struct{ c *memConn }

func (s *srvConn) Read(p []byte) (int, error)         { return s.c.req.Read(p) }
func (s *srvConn) Write(p []byte) (int, error)        { return s.c.resp.Write(p) }
func (s *srvConn) Close() error                       { return nil }
func (s *srvConn) LocalAddr() net.Addr                { return &net.TCPAddr{} }
func (s *srvConn) RemoteAddr() net.Addr               { return &net.TCPAddr{} }
func (s *srvConn) SetDeadline(t time.Time) error      { return nil }
func (s *srvConn) SetReadDeadline(t time.Time) error  { return nil }
func (s *srvConn) SetWriteDeadline(t time.Time) error { return nil }

func (c *memConn) Write(p []byte) (int, error) { return c.req.Write(p) }
func (c *memConn) Read(p []byte) (int, error) {
	if !c.served {
		c.served = true
		c.w.streamBytes = append(c.w.streamBytes, append([]byte(nil), c.req.Bytes()...))
		c.w.logWrites(c.from)
		pre := c.w.snapLocal(c.peer)
		var before map[string]bool
		var fromLeft map[string]bool
		if c.w.sc.Oracles.C11 {
			before = c.w.knownIDs(c.peer)
			fromLeft = map[string]bool{}
			for _, md := range c.w.nodes[c.from].State.Nodes() {
				fromLeft[md.ID] = md.Left
			}
		}
		c.hErr = c.w.nodes[c.peer].sl.VHandleConn(&srvConn{c})
		c.w.checkLocalUnchanged(c.peer, pre, "stream")
		if before != nil {
			for id := range c.w.knownIDs(c.peer) {
				if !before[id] {
					c.w.learned = append(c.w.learned, learn{o: c.peer, id: id, via: "stream-request", src: c.from, srcKnewLeft: fromLeft[id]})
				}
			}
		}
	}
	if c.resp.Len() == 0 {
		return 0, io.EOF
	}
	return c.resp.Read(p)
}
func (c *memConn) Close() error                       { return nil }
func (c *memConn) LocalAddr() net.Addr                { return &net.TCPAddr{} }
func (c *memConn) RemoteAddr() net.Addr               { return &net.TCPAddr{} }
func (c *memConn) SetDeadline(t time.Time) error      { return nil }
func (c *memConn) SetReadDeadline(t time.Time) error  { return nil }
func (c *memConn) SetWriteDeadline(t time.Time) error { return nil }

// tee forwards watcher callbacks to the recorder first and then to the
// routing syncer (if any).
type tee struct {
	rec *recorder
	syn gossip.Watcher
}

func (t *tee) OnJoin(id string) {
	t.rec.OnJoin(id)
	if t.syn != nil {
		t.syn.OnJoin(id)
	}
}
func (t *tee) OnLeave(id string) {
	t.rec.OnLeave(id)
	if t.syn != nil {
		t.syn.OnLeave(id)
	}
}
func (t *tee) OnReachable(id string) {
	t.rec.OnReachable(id)
	if t.syn != nil {
		t.syn.OnReachable(id)
	}
}
func (t *tee) OnUnreachable(id string) {
	t.rec.OnUnreachable(id)
	if t.syn != nil {
		t.syn.OnUnreachable(id)
	}
}
func (t *tee) OnUpsertKey(id, k, v string) {
	t.rec.OnUpsertKey(id, k, v)
	if t.syn != nil {
		t.syn.OnUpsertKey(id, k, v)
	}
}
func (t *tee) OnDeleteKey(id, k string) {
	t.rec.OnDeleteKey(id, k)
	if t.syn != nil {
		t.syn.OnDeleteKey(id, k)
	}
}
func (t *tee) OnExpired(id string) {
	t.rec.OnExpired(id)
	if t.syn != nil {
		t.syn.OnExpired(id)
	}
}

// Node is one cluster member assembled from the real components.
type Node struct {
	idx  int
	ID   string
	Addr string

	fd    *fakeFD
	rec   *recorder
	State *gossip.VClusterState
	pl    *gossip.VPacketListener
	sl    *gossip.VStreamListener
	G     *gossip.Gossip

	// routing scenarios
	CS  *cluster.State
	Syn *sgossip.VSyncer
}

// Scenario fixes the alphabet and the bounds of one exploration.
type Scenario struct {
	Name      string
	IDs       []string
	MaxPacket int
	Routing   bool
	// Blocked[i][j]: datagrams i->j are never delivered and dials i->j fail.
	Blocked [][2]int
	// Init is applied in New() before exploration starts.
	Init []Event

	Ops        map[int][]Event // local-operation alphabet per node (Kind/K/V)
	MaxOps     map[int]int     // per-node budget of local operations
	Digests    [][2]int        // allowed initiations i->j (nil: none)
	MaxDigests int
	Perms      string // "id", "rot", "all"
	MaxDups    int
	Joins      [][2]int
	MaxJoins   int
	Suspects   [][2]int
	MaxSuspect int
	MaxSweeps  int
	Sweepers   []int
	Crash      []int
	MaxCrash   int
	// WritesAfterLeave: the owner may still write and delete keys after it has
	// left (the server withdraws its endpoints while Leave is still telling the
	// peers)
	WritesAfterLeave bool
	// Echo: nodes that may receive, from a peer, state about THEMSELVES at
	// versions above their own (the peer remembers an earlier incarnation
	// with the same id that never left)
	Echo    []int
	MaxEcho int
	Leavers    []int
	LeaveMasks bool // explore every subset of peers failing to receive the leave
	// MaxInflight bounds the number of datagrams in flight; initiations are
	// disabled above it (keeps the space finite without hiding behaviour:
	// an undelivered datagram is indistinguishable from a lost one).
	MaxInflight int
	// MaxHolds < 0: every datagram stays in flight until the explorer
	// delivers it (all reorderings, unbounded). MaxHolds >= 0: deviation
	// bounding - by default a datagram is delivered at once and in order (a
	// gossip round completes atomically); holding one back for later (delay,
	// reordering, loss) costs one unit of this budget.
	MaxHolds int
	Closure  bool // run the fair closure (C03) from every state
	// BigValue: value used by op "upbig" (finding F1 sub-scenario).
	Oracles OracleSet
}

type OracleSet struct {
	C02, C03, C04, C11, C13, C14 bool
}

type World struct {
	sc    *Scenario
	nodes []*Node
	byAdr map[string]int
	byID  map[string]int

	inflight []*Packet
	blocked  [][]bool
	crashed  []bool
	failMask int
	curPerm  int
	curHold  int
	seq      int       // datagrams produced by the current event
	cascade  []*Packet // auto-delivery queue of the current event
	holdUsed int
	inClosure bool
	learned   []learn // nodes newly learned during the current event

	// budgets used so far
	opsUsed    []int
	digUsed    int
	dupUsed    int
	joinUsed   int
	suspUsed   int
	sweepUsed  int
	crashUsed  int
	echoUsed   int
	leftCalled []bool

	// oracle bookkeeping
	writeLog    []map[gossip.Entry]bool
	everExpired [][]bool
	// heard[i][x]: a delta datagram from x was delivered to i while i had x
	// marked unreachable (and i has not suspected x again since)
	heard           [][]bool
	heardAtLiveness []bool
	viol        []violation
	streamBytes [][]byte
	Stats       *Stats
	packetLog   map[string][]byte // distinct datagrams seen (corpus for C13)
}

// learn records that node o first learned about node id from one message.
type learn struct {
	o           int
	id          string
	via         string
	src         int  // node that produced the message
	srcKnewLeft bool // the message shows that its producer knew id had left
}

func (w *World) knownIDs(i int) map[string]bool {
	m := map[string]bool{}
	for _, md := range w.nodes[i].State.Nodes() {
		m[md.ID] = true
	}
	return m
}

type violation struct {
	prop, clause, sig, msg string
}

// The gossip Metrics objects are write-only for the handlers, so worlds
// share a small pool of them instead of building ~20 collectors per node
// per replay.
var (
	metricsPool [64]*gossip.Metrics
	metricsOnce sync.Once
	metricsNext atomic.Uint64
)

func sharedMetrics() *gossip.Metrics {
	metricsOnce.Do(func() {
		for i := range metricsPool {
			metricsPool[i] = gossip.VNewMetrics()
		}
	})
	return metricsPool[metricsNext.Add(1)%uint64(len(metricsPool))]
}

func addrOf(i int) string { return fmt.Sprintf("10.0.0.%d:7000", i+1) }

func NewWorld(sc *Scenario, st *Stats) *World {
	n := len(sc.IDs)
	w := &World{
		sc: sc, byAdr: map[string]int{}, byID: map[string]int{},
		crashed: make([]bool, n), opsUsed: make([]int, n), leftCalled: make([]bool, n),
		Stats: st,
	}
	w.blocked = make([][]bool, n)
	w.everExpired = make([][]bool, n)
	for i := range w.blocked {
		w.blocked[i] = make([]bool, n)
		w.everExpired[i] = make([]bool, n)
		w.heard = append(w.heard, make([]bool, n))
	}
	for _, b := range sc.Blocked {
		w.blocked[b[0]][b[1]] = true
	}
	for i, id := range sc.IDs {
		nd := &Node{idx: i, ID: id, Addr: addrOf(i)}
		w.byAdr[nd.Addr] = i
		w.byID[id] = i
		nd.fd = &fakeFD{level: map[string]float64{}}
		nd.rec = newRecorder(id)
		m := sharedMetrics()
		t := &tee{rec: nd.rec}
		if sc.Routing {
			nd.CS = cluster.NewState(&cluster.Node{ID: id, ProxyAddr: "p-" + id, AdminAddr: "a-" + id}, nopLogger)
			nd.Syn = sgossip.VNewSyncer(nd.CS)
			t.syn = nd.Syn
		}
		nd.State = gossip.VNewClusterState(id, nd.Addr, nd.fd, m, t)
		pc := &capConn{w: w, node: i}
		nd.pl = gossip.VNewPacketListener(pc, nd.State, nd.fd, sc.MaxPacket, m)
		nd.sl = gossip.VNewStreamListener(nil, nd.State, m)
		cfg := &gossip.Config{BindAddr: nd.Addr, AdvertiseAddr: nd.Addr, Interval: time.Second, MaxPacketSize: sc.MaxPacket}
		ii := i
		nd.G = gossip.VNewGossip(cfg, nd.State, nd.sl, nd.pl, pc, func(network, addr string) (net.Conn, error) {
			return w.dial(ii, addr)
		}, m)
		w.nodes = append(w.nodes, nd)
		w.writeLog = append(w.writeLog, map[gossip.Entry]bool{})
		if sc.Routing {
			nd.Syn.VSync(nd.G)
			w.logWrites(i)
		}
	}
	for _, e := range sc.Init {
		w.Apply(e)
	}
	// the budgets count exploration events only
	for i := range w.opsUsed {
		w.opsUsed[i] = 0
	}
	w.digUsed, w.dupUsed, w.joinUsed, w.suspUsed, w.sweepUsed, w.crashUsed, w.echoUsed = 0, 0, 0, 0, 0, 0, 0
	return w
}

func (w *World) Nodes() []*Node { return w.nodes }

func (w *World) dial(from int, addr string) (net.Conn, error) {
	to, ok := w.byAdr[addr]
	if !ok {
		return nil, errors.New("vnet: no such host")
	}
	if w.blocked[from][to] || w.crashed[to] || w.failMask&(1<<uint(to)) != 0 {
		return nil, errors.New("vnet: connection refused")
	}
	return &memConn{w: w, from: from, peer: to}, nil
}

func (w *World) logWrites(i int) {
	for _, e := range w.nodes[i].State.LocalNode().Entries {
		w.writeLog[i][e] = true
	}
}

func (w *World) violate(prop, clause, sig, format string, a ...any) {
	// a check only ever reports its own property
	o := w.sc.Oracles
	on := map[string]bool{"C02": o.C02, "C03": o.C03 || w.sc.Closure, "C04": o.C04, "C11": o.C11, "C13": o.C13, "C14": o.C14}
	if !on[prop] {
		return
	}
	w.viol = append(w.viol, violation{prop, clause, sig, fmt.Sprintf(format, a...)})
}

// ---------------------------------------------------------------------------
// network

func descDigest(h gossip.VDigestHeader, d gossip.VDigest) string {
	var sb strings.Builder
	fmt.Fprintf(&sb, "D %s req=%v [", h.NodeID, h.Request)
	for _, e := range d {
		fmt.Fprintf(&sb, "%s:%d", e.ID, e.Version)
		if e.Left {
			sb.WriteString("L")
		}
		sb.WriteString(" ")
	}
	sb.WriteString("]")
	return sb.String()
}

func descEntry(e gossip.Entry) string {
	s := fmt.Sprintf("%s=%q@%d", e.Key, e.Value, e.Version)
	if e.Deleted {
		s += "D"
	}
	if e.Internal {
		s += "I"
	}
	return s
}

func descDelta(h gossip.VDeltaHeader, d gossip.VDelta) string {
	var sb strings.Builder
	fmt.Fprintf(&sb, "X %s {", h.NodeID)
	for _, de := range d {
		fmt.Fprintf(&sb, "%s[", de.ID)
		for _, e := range de.Entries {
			sb.WriteString(descEntry(e))
			sb.WriteString(" ")
		}
		sb.WriteString("] ")
	}
	sb.WriteString("}")
	return sb.String()
}

func permCount(mode string, k int) int {
	switch mode {
	case "rot":
		return k
	case "all":
		f := 1
		for i := 2; i <= k; i++ {
			f *= i
		}
		return f
	}
	return 1
}

func applyPerm(mode string, d gossip.VDigest, p int) gossip.VDigest {
	k := len(d)
	if k <= 1 {
		return d
	}
	out := make(gossip.VDigest, 0, k)
	switch mode {
	case "rot":
		p %= k
		out = append(out, d[p:]...)
		out = append(out, d[:p]...)
	case "all":
		p %= permCount("all", k)
		pool := append(gossip.VDigest(nil), d...)
		for i := k; i >= 1; i-- {
			f := permCount("all", i-1)
			j := p / f
			p %= f
			out = append(out, pool[j])
			pool = append(pool[:j], pool[j+1:]...)
		}
	default:
		return d
	}
	return out
}

// onSend captures one datagram written by the real code.
func (w *World) onSend(from int, addr string, b []byte) {
	to, ok := w.byAdr[addr]
	if !ok {
		return
	}
	w.Stats.add(&w.Stats.PacketsSent, 1)
	if w.sc.Oracles.C13 && len(b) > w.sc.MaxPacket {
		w.violate("C13", "emit-size", "oversize-datagram", "node %s emitted %d bytes > max %d", w.nodes[from].ID, len(b), w.sc.MaxPacket)
	}
	p := &Packet{From: from, To: to}
	if w.sc.Oracles.C11 {
		p.SrcLeft = map[string]bool{}
		for _, md := range w.nodes[from].State.Nodes() {
			if md.Left {
				p.SrcLeft[md.ID] = true
			}
		}
	}
	if len(b) >= 2 && b[0] == gossip.VMsgDigest {
		h, d, err := gossip.VDecodeDigest(b)
		if err != nil {
			w.violate("C13", "emit-decode", "undecodable-digest", "digest from %s does not decode: %v", w.nodes[from].ID, err)
			return
		}
		// the original must be a subset of the sender's digest
		full := w.nodes[from].State.Digest()
		sort.Slice(full, func(i, j int) bool { return full[i].ID < full[j].ID })
		have := map[gossip.VDigestEntry]bool{}
		for _, e := range full {
			have[e] = true
		}
		for _, e := range d {
			if !have[e] {
				w.violate("C13", "emit-digest-subset", "digest-entry-not-in-state", "digest entry %+v not in sender state", e)
			}
		}
		if len(d) < len(full) {
			w.Stats.add(&w.Stats.TruncatedDigests, 1)
			if w.sc.Oracles.C13 {
				// at least one more entry whenever the next one fits (all
				// digest entries of one world have the same encoded size)
				if nb, err := gossip.VEncodeDigest(h, full[:len(d)+1], 1<<20); err == nil && len(nb) <= w.sc.MaxPacket {
					w.violate("C13", "emit-maximal", "digest-not-maximal", "digest from %s carries %d of %d entries although %d fit in %d bytes", w.nodes[from].ID, len(d), len(full), len(d)+1, w.sc.MaxPacket)
				}
			}
		}
		if w.sc.Oracles.C13 {
			ids := map[string]bool{}
			for _, e := range d {
				if ids[e.ID] {
					w.violate("C13", "emit-digest-subset", "digest-duplicate-entry", "digest from %s lists %s twice", w.nodes[from].ID, e.ID)
				}
				ids[e.ID] = true
			}
		}
		// re-derive in the order chosen by the explorer: as many entries as
		// the real encoder decided to send, taken from the sender's digest
		// in the chosen order (all entries of one world have the same
		// encoded size, so any such prefix is a packet the sender can emit).
		perm := applyPerm(w.sc.Perms, full, w.curPerm)
		if len(d) < len(perm) {
			perm = perm[:len(d)]
		}
		nb, err := gossip.VEncodeDigest(h, perm, 1<<20)
		if err != nil {
			w.violate("C13", "emit-encode", "digest-encode-error", "encodeDigest: %v", err)
			return
		}
		nd := perm
		p.Data, p.Digest, p.Request = nb, true, h.Request
		p.Desc = fmt.Sprintf("%d>%d %s", from, to, descDigest(h, nd))
	} else if len(b) >= 2 && b[0] == gossip.VMsgDelta {
		h, d, err := gossip.VDecodeDelta(b)
		if err != nil {
			w.violate("C13", "emit-decode", "undecodable-delta", "delta from %s does not decode: %v", w.nodes[from].ID, err)
			return
		}
		w.checkDeltaEmission(from, d)
		p.Data = b
		p.Desc = fmt.Sprintf("%d>%d %s", from, to, descDelta(h, d))
	} else {
		w.violate("C13", "emit-type", "unknown-datagram", "unknown datagram type from %s", w.nodes[from].ID)
		return
	}
	if w.packetLog != nil {
		w.packetLog[p.Desc] = p.Data
	}
	if w.blocked[from][to] {
		return // never deliverable: same as lost
	}
	if !p.Digest && w.sc.MaxSuspect == 0 && strings.HasSuffix(p.Desc, "{}") {
		// An empty delta only feeds the failure detector; in scenarios
		// without suspicion events its delivery is a no-op, so it is not
		// tracked (bisimilar to losing it).
		return
	}
	bit := w.seq
	w.seq++
	if w.sc.MaxHolds >= 0 && !w.inClosure && w.curHold&(1<<uint(bit)) == 0 {
		w.cascade = append(w.cascade, p)
		return
	}
	if w.sc.MaxHolds >= 0 && !w.inClosure {
		w.holdUsed++
	}
	w.inflight = append(w.inflight, p)
	sort.SliceStable(w.inflight, func(i, j int) bool { return w.inflight[i].Desc < w.inflight[j].Desc })
}

// checkDeltaEmission: whole entries, per node in strictly increasing version
// order, every entry genuinely written by its owner.
func (w *World) checkDeltaEmission(from int, d gossip.VDelta) {
	total := 0
	for _, de := range d {
		total += len(de.Entries)
		var last uint64
		for _, e := range de.Entries {
			if e.Version <= last {
				w.violate("C13", "emit-order", "delta-not-version-ordered", "delta for %s not in version order", de.ID)
			}
			last = e.Version
			if o, ok := w.byID[de.ID]; ok && w.sc.Oracles.C02 && !w.writeLog[o][e] {
				w.violate("C02", "fabricated", "fabricated-entry-in-delta", "node %s sent entry %s for %s that the owner never wrote", w.nodes[from].ID, descEntry(e), de.ID)
			}
		}
	}
	if total == 0 {
		w.Stats.add(&w.Stats.EmptyDeltas, 1)
	}
}

func (w *World) deliver(p *Packet) {
	if w.crashed[p.To] {
		return
	}
	nd := w.nodes[p.To]
	pre := w.snapLocal(p.To)
	if !p.Digest && len(p.Data) <= w.sc.MaxPacket {
		if md, ok := w.meta(p.To, w.nodes[p.From].ID); ok && md.Unreachable {
			w.heard[p.To][p.From] = true
		}
	}
	var before map[string]bool
	if w.sc.Oracles.C11 {
		before = w.knownIDs(p.To)
	}
	defer func() {
		if before == nil {
			return
		}
		for id := range w.knownIDs(p.To) {
			if before[id] {
				continue
			}
			l := learn{o: p.To, id: id, src: p.From, via: "delta"}
			if p.Digest {
				l.via = "digest"
				_, d, _ := gossip.VDecodeDigest(p.Data)
				for _, de := range d {
					if de.ID == id {
						l.srcKnewLeft = de.Left
					}
				}
			} else {
				_, d, _ := gossip.VDecodeDelta(p.Data)
				for _, de := range d {
					if de.ID == id {
						for _, en := range de.Entries {
							if en.Key == gossip.VLeftKey {
								l.srcKnewLeft = true
							}
						}
					}
				}
			}
			// a digest names whole nodes: if its sender listed the node as left,
			// that is what the receiver must learn (a delta may be a prefix that
			// ends before the marker, so for deltas the message itself decides)
			if p.Digest && p.SrcLeft[id] {
				l.srcKnewLeft = true
			}
			w.learned = append(w.learned, l)
		}
	}()
	data := append([]byte(nil), p.Data...)
	if len(data) > w.sc.MaxPacket {
		// the receiver reads into a buffer of its own max packet size
		data = data[:w.sc.MaxPacket]
	}
	_ = nd.pl.VHandlePacket(data)
	w.checkLocalUnchanged(p.To, pre, "datagram")
}

func (w *World) snapLocal(i int) string {
	return descNode(w.nodes[i].State.LocalNode())
}

func (w *World) checkLocalUnchanged(i int, pre, via string) {
	if !w.sc.Oracles.C02 {
		return
	}
	if post := w.snapLocal(i); post != pre {
		w.violate("C02", "own-state-changed", "own-state-changed-by-message", "node %s own state changed by a received %s: %s -> %s", w.nodes[i].ID, via, pre, post)
	}
}

func descNode(n *gossip.NodeState) string {
	var sb strings.Builder
	fmt.Fprintf(&sb, "%s v%d", n.ID, n.Version)
	if n.Left {
		sb.WriteString(" L")
	}
	if n.Unreachable {
		sb.WriteString(" U")
	}
	es := append([]gossip.Entry(nil), n.Entries...)
	sort.Slice(es, func(i, j int) bool { return es[i].Key < es[j].Key })
	sb.WriteString(" {")
	for _, e := range es {
		sb.WriteString(descEntry(e))
		sb.WriteString(" ")
	}
	sb.WriteString("}")
	return sb.String()
}

// DescInflight lists the in-flight datagrams with their sizes.
func (w *World) DescInflight() []string {
	var out []string
	for _, p := range w.inflight {
		out = append(out, fmt.Sprintf("%s (%dB)", p.Desc, len(p.Data)))
	}
	return out
}

// EnableCorpus makes the world remember every distinct datagram it captures.
func (w *World) EnableCorpus() { w.packetLog = map[string][]byte{} }

// Corpus returns the distinct datagrams and the stream requests produced by
// the real code so far.
func (w *World) Corpus() (packets [][]byte, streams [][]byte) {
	var keys []string
	for k := range w.packetLog {
		keys = append(keys, k)
	}
	sort.Strings(keys)
	for _, k := range keys {
		packets = append(packets, w.packetLog[k])
	}
	return packets, w.streamBytes
}
