package gw

import (
	"fmt"

	"github.com/andydunstall/piko/pkg/gossip"
)

// CheckGossipRound drives the real Gossip.gossipRound (the periodic task that
// picks the peers) on a node that knows two peers in every combination of
// {live, unreachable, left}: every round must send one digest request to a
// live peer if there is one AND one to an unreachable peer if there is one
// (otherwise two healthy nodes that suspect each other never talk again), and
// none to a peer that left. The choice among equals is random in production;
// the facts checked here do not depend on it.
func CheckGossipRound() (cases int, problems []string) {
	status := []string{"live", "unreachable", "left"}
	for _, s1 := range status {
		for _, s2 := range status {
			cases++
			sc := &Scenario{Name: "round", IDs: []string{"nA", "nB", "nC"}, MaxPacket: 1400, MaxHolds: -1, MaxSuspect: 1,
				Init: []Event{ev("join", 1, 0), ev("join", 2, 0)}}
			w := NewWorld(sc, &Stats{})
			for x, s := range map[int]string{1: s1, 2: s2} {
				switch s {
				case "unreachable":
					w.Replay(Event{Kind: "suspect", A: 0, B: x})
				case "left":
					w.Replay(Event{Kind: "leave", A: x})
				}
			}
			for round := 0; round < 6; round++ {
				w.inflight = nil
				_ = w.nodes[0].G.VGossipRound()
				got := map[string]int{}
				for _, p := range w.inflight {
					if p.From == 0 && p.Digest && p.Request {
						got[map[int]string{1: s1, 2: s2}[p.To]]++
					}
				}
				want := map[string]int{}
				for _, s := range []string{s1, s2} {
					if s != "left" {
						want[s] = 1
					}
				}
				for _, s := range status {
					if got[s] != want[s] {
						problems = append(problems, fmt.Sprintf("peers (%s, %s): a gossip round sent %d digest request(s) to %s peers, want %d", s1, s2, got[s], s, want[s]))
					}
				}
				if len(problems) > 0 {
					break
				}
			}
		}
	}
	return
}

var _ = gossip.VMsgDigest
