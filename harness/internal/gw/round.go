package gw

import (
	"fmt"

	"github.com/andydunstall/piko/pkg/gossip"
)

// CheckGossipRound drives the real Gossip.gossipRound (the periodic task that
// picks the peers) on a node that knows two peers in every combination of
// {live, unreachable, left}: every round must send one digest request to a
// live peer if there is one AND one to an unreachable peer if there is one
// (otherwise two healthy nodes that suspect each other never talk again), and
// none to a peer that left. The choice among equals is random in production;
// the facts checked here do not depend on it.
func CheckGossipRound() (cases int, problems []string) {
	status := []string{"live", "unreachable", "left"}
	for _, s1 := range status {
		for _, s2 := range status {
			cases++
			sc := &Scenario{Name: "round", IDs: []string{"nA", "nB", "nC"}, MaxPacket: 1400, MaxHolds: -1, MaxSuspect: 1,
				Init: []Event{ev("join", 1, 0), ev("join", 2, 0)}}
			w := NewWorld(sc, &Stats{})
			for x, s := range map[int]string{1: s1, 2: s2} {
				switch s {
				case "unreachable":
					w.Replay(Event{Kind: "suspect", A: 0, B: x})
				case "left":
					w.Replay(Event{Kind: "leave", A: x})
				}
			}
			for round := 0; round < 6; round++ {
				w.inflight = nil
				_ = w.nodes[0].G.VGossipRound()
				got := map[string]int{}
				for _, p := range w.inflight {
					if p.From == 0 && p.Digest && p.Request {
						got[map[int]string{1: s1, 2: s2}[p.To]]++
					}
				}
				want := map[string]int{}
				for _, s := range []string{s1, s2} {
					if s != "left" {
						want[s] = 1
					}
				}
				for _, s := range status {
					if got[s] != want[s] {
						problems = append(problems, fmt.Sprintf("peers (%s, %s): a gossip round sent %d digest request(s) to %s peers, want %d", s1, s2, got[s], s, want[s]))
					}
				}
				if len(problems) > 0 {
					break
				}
			}
		}
	}
	return
}

var _ = gossip.VMsgDigest

// CheckLeaveAnnounced drives the real Gossip.Leave() of the last node of a
// cluster of n for EVERY subset of peers that cannot be reached (their stream
// dial fails: they crashed a moment ago and nobody has noticed yet), several
// times each because the order in which Leave tries the peers is random in
// production and not under the harness' control. Whenever at least one peer
// is reachable the departure must be announced: some reachable peer records
// the node as left.
func CheckLeaveAnnounced(repeats int) (cases int, problems []string) {
	for _, n := range []int{3, 4, 5} {
		ids := []string{"nA", "nB", "nC", "nD", "nE"}[:n]
		leaver := n - 1
		for mask := 0; mask < 1<<uint(n-1); mask++ {
			if mask == 1<<uint(n-1)-1 {
				continue // nobody is reachable: nothing can be announced
			}
			for r := 0; r < repeats; r++ {
				cases++
				var init []Event
				for pass := 0; pass < 2; pass++ {
					for i := 1; i < n; i++ {
						init = append(init, ev("join", i, 0))
					}
				}
				sc := &Scenario{Name: "leave-announced", IDs: ids, MaxPacket: 1400, MaxHolds: -1, Init: init, LeaveMasks: true,
					Ops: map[int][]Event{leaver: {{Kind: "leave"}}}, MaxOps: map[int]int{leaver: 1}}
				w := NewWorld(sc, &Stats{})
				knows := 0
				for _, md := range w.nodes[leaver].State.Nodes() {
					if md.ID != ids[leaver] {
						knows++
					}
				}
				if knows != n-1 {
					problems = append(problems, fmt.Sprintf("harness: the leaving node knows %d of %d peers", knows, n-1))
					return
				}
				w.Replay(Event{Kind: "leave", A: leaver, Perm: mask})
				announced := false
				for j := 0; j < n-1; j++ {
					if mask&(1<<uint(j)) != 0 {
						continue
					}
					if ns, ok := w.nodes[j].State.Node(ids[leaver]); ok && ns.Left {
						announced = true
					}
				}
				if !announced {
					problems = append(problems, fmt.Sprintf("cluster of %d: %s leaves while the peers in mask %0*b are unreachable (not yet noticed): no reachable peer was told, the survivors will see it as unreachable, not as left (attempt %d of %d; the order in which Leave tries peers is random)", n, ids[leaver], n-1, mask, r+1, repeats))
					break
				}
			}
		}
	}
	return
}
