package gw

import (
	"encoding/hex"
	"strings"

	"github.com/andydunstall/piko/pkg/gossip"
	"verifharness/internal/mc"
)

// Sys adapts a scenario to the model checker.
type Sys struct {
	Sc    *Scenario
	Stats *Stats
}

func (s *Sys) New() mc.Instance[Event] { return NewWorld(s.Sc, s.Stats) }

func ev(kind string, a, b int) Event { return Event{Kind: kind, A: a, B: b} }

func pairs(n int) [][2]int {
	var out [][2]int
	for i := 0; i < n; i++ {
		for j := 0; j < n; j++ {
			if i != j {
				out = append(out, [2]int{i, j})
			}
		}
	}
	return out
}

var kvOps = []Event{
	{Kind: "up", K: "a", V: "1"},
	{Kind: "up", K: "a", V: "2"},
	{Kind: "up", K: "b", V: "1"},
	{Kind: "del", K: "a"},
}

var kvOpsCompact = []Event{
	{Kind: "up", K: "a", V: "1"},
	{Kind: "up", K: "b", V: "1"},
	{Kind: "del", K: "a"},
	{Kind: "del", K: "b"},
	{Kind: "compact"},
}

// S1: owner X(0), relay R(1), observer O(2); O and X cannot talk directly,
// so everything O learns about X comes through R. Small packets truncate
// deltas to one or two entries.
func S1(maxPacket, ops, digests, dups, holds int) *Scenario {
	return &Scenario{
		Name: "S1-relay-truncation", IDs: []string{"nX", "nR", "nO"}, MaxPacket: maxPacket,
		Blocked: [][2]int{{0, 2}, {2, 0}},
		Init:    []Event{ev("join", 1, 0), ev("join", 2, 1)},
		Ops:     map[int][]Event{0: kvOps}, MaxOps: map[int]int{0: ops},
		Digests: [][2]int{{1, 0}, {0, 1}, {2, 1}, {1, 2}}, MaxDigests: digests,
		Perms: "id", MaxDups: dups, MaxInflight: 3, MaxHolds: holds,
		Oracles: OracleSet{C02: true, C13: true, C14: true},
	}
}

// S2: compaction: tombstones compacted before / after the observer saw them,
// partial delivery around the marker.
func S2(maxPacket, ops, digests, dups, holds int, relay bool) *Scenario {
	sc := &Scenario{
		Name: "S2-compaction", IDs: []string{"nX", "nO"}, MaxPacket: maxPacket,
		Init: []Event{ev("join", 1, 0)},
		Ops:  map[int][]Event{0: kvOpsCompact}, MaxOps: map[int]int{0: ops},
		Digests: [][2]int{{1, 0}, {0, 1}}, MaxDigests: digests,
		Perms: "id", MaxDups: dups, MaxInflight: 3, MaxHolds: holds,
		Oracles: OracleSet{C02: true, C13: true, C14: true},
	}
	if relay {
		sc.Name = "S2r-compaction-relay"
		sc.IDs = []string{"nX", "nR", "nO"}
		sc.Blocked = [][2]int{{0, 2}, {2, 0}}
		sc.Init = []Event{ev("join", 1, 0), ev("join", 2, 1)}
		sc.Digests = [][2]int{{1, 0}, {2, 1}, {1, 2}}
	}
	return sc
}

// S3: two owners whose deltas share a datagram (empty node header at 160).
func S3(maxPacket, ops, digests, dups, holds int) *Scenario {
	small := []Event{{Kind: "up", K: "a", V: "1"}, {Kind: "up", K: "b", V: "1"}, {Kind: "del", K: "a"}}
	return &Scenario{
		Name: "S3-two-owners", IDs: []string{"nX", "nY", "nO"}, MaxPacket: maxPacket,
		Init: []Event{ev("join", 1, 0), ev("join", 2, 0), ev("join", 2, 1)},
		Ops:  map[int][]Event{0: small, 1: small}, MaxOps: map[int]int{0: ops, 1: ops},
		Digests: [][2]int{{2, 0}, {2, 1}, {0, 1}, {1, 0}}, MaxDigests: digests,
		Perms: "all", MaxDups: dups, MaxInflight: 3, MaxHolds: holds,
		Oracles: OracleSet{C02: true, C13: true, C14: true},
	}
}

// S4: membership: leave (every subset of peers missing the notification),
// crash, suspicion, recovery, expiry sweeps with skew, re-learning.
func S4(n, digests, dups, holds, sweeps, suspects int, crash bool, ops int) *Scenario {
	if ops == 0 {
		ops = 2
	}
	ids := []string{"nA", "nB", "nC", "nD"}[:n]
	var init []Event
	for i := 1; i < n; i++ {
		init = append(init, ev("join", i, 0))
	}
	// second pass so that everybody knows everybody
	for i := 1; i < n; i++ {
		init = append(init, ev("join", i, 0))
	}
	last := n - 1
	var susp [][2]int
	var sweepers []int
	for i := 0; i < n; i++ {
		sweepers = append(sweepers, i)
		for j := 0; j < n; j++ {
			if i != j && (j == last || i == last) {
				susp = append(susp, [2]int{i, j})
			}
		}
	}
	sc := &Scenario{
		Name: "S4-membership", IDs: ids, MaxPacket: 1400, Init: init,
		Ops: map[int][]Event{last: {{Kind: "leave"}, {Kind: "up", K: "a", V: "1"}, {Kind: "del", K: "a"}, {Kind: "compact"}}}, MaxOps: map[int]int{last: ops},
		LeaveMasks: true,
		Digests:    pairs(n), MaxDigests: digests, Perms: "id", MaxDups: dups, MaxInflight: 3, MaxHolds: holds,
		Suspects: susp, MaxSuspect: suspects, MaxSweeps: sweeps, Sweepers: sweepers,
		Oracles: OracleSet{C11: true},
	}
	if crash {
		sc.Crash = []int{last}
		sc.MaxCrash = 1
	}
	return sc
}

// S5: discovery: a node first learned from a digest, from a delta, from a
// join; digest truncation (the digest of 3 nodes does not fit).
func S5(maxPacket, ops, digests, dups, holds int) *Scenario {
	return &Scenario{
		Name: "S5-discovery", IDs: []string{"nX", "nR", "nO"}, MaxPacket: maxPacket,
		Init: []Event{ev("join", 1, 0)},
		Ops:  map[int][]Event{0: {{Kind: "up", K: "a", V: "1"}, {Kind: "up", K: "b", V: "1"}, {Kind: "del", K: "a"}}}, MaxOps: map[int]int{0: ops},
		Digests: pairs(3), MaxDigests: digests, Perms: "rot", MaxDups: dups, MaxInflight: 3, MaxHolds: holds,
		Joins: [][2]int{{2, 1}, {2, 0}}, MaxJoins: 1,
		Oracles: OracleSet{C02: true, C13: true, C14: true},
	}
}

// S6: routing: real syncer + cluster.State on every node; endpoint churn on
// the owner, compaction, truncation, relay, leave, suspicion, expiry and
// re-learning, observer joining at any point.
func S6(maxPacket, ops, digests, dups, holds int, membership bool) *Scenario {
	epOps := []Event{
		{Kind: "addep", K: "e1"}, {Kind: "addep", K: "e2"},
		{Kind: "rmep", K: "e1"}, {Kind: "rmep", K: "e2"},
		{Kind: "compact"},
	}
	sc := &Scenario{
		Name: "S6-routing", IDs: []string{"nX", "nR", "nO"}, MaxPacket: maxPacket, Routing: true,
		Blocked: [][2]int{{0, 2}, {2, 0}},
		Init:    []Event{ev("join", 1, 0)},
		Ops:     map[int][]Event{0: epOps}, MaxOps: map[int]int{0: ops},
		Digests: [][2]int{{1, 0}, {2, 1}, {1, 2}}, MaxDigests: digests,
		Perms: "id", MaxDups: dups, MaxInflight: 3, MaxHolds: holds,
		Joins: [][2]int{{2, 1}}, MaxJoins: 1,
		Oracles: OracleSet{C04: true},
	}
	if maxPacket < 0 {
		// S6x: endpoint ids of different lengths, so that entries have different
		// sizes (a delta that skips an entry that does not fit and carries a
		// later, smaller one is no longer a version prefix)
		sc.Name = "S6x-routing-mixed-sizes"
		sc.MaxPacket = -maxPacket
		sc.Ops[0] = []Event{
			{Kind: "addep", K: "e1"}, {Kind: "addep", K: "a-rather-long-endpoint-identifier"}, {Kind: "addep", K: "e2"},
			{Kind: "rmep", K: "e1"},
		}
	}
	if maxPacket == 1401 {
		// S6y: endpoint ids that contain the separator of the gossip key
		// ("endpoint:<id>"), one of them a prefix of the other
		sc.Name = "S6y-routing-ids-with-colons"
		sc.MaxPacket = 1400
		sc.Ops[0] = []Event{
			{Kind: "addep", K: "db"}, {Kind: "addep", K: "db:5432"},
			{Kind: "rmep", K: "db:5432"}, {Kind: "rmep", K: "db"}, {Kind: "addep", K: "db:5433"},
		}
	}
	if membership {
		sc.Name = "S6m-routing-membership"
		sc.Ops[0] = append(sc.Ops[0], Event{Kind: "leave"})
		sc.Suspects = [][2]int{{1, 0}, {2, 0}, {2, 1}}
		sc.MaxSuspect = 1
		sc.MaxSweeps = 1
		sc.Sweepers = []int{1, 2}
	}
	return sc
}

// S8: stream paths and empty values: the owner re-joins or leaves (its whole
// state, incl. tombstones, travels over a stream), keys are re-created with an
// empty value after a delete.
func S8(maxPacket, ops, digests, dups, holds int) *Scenario {
	return &Scenario{
		Name: "S8-streams-empty-values", IDs: []string{"nX", "nO"}, MaxPacket: maxPacket,
		Init: []Event{ev("join", 1, 0)},
		Ops: map[int][]Event{0: {
			{Kind: "up", K: "a", V: "1"}, {Kind: "up", K: "a", V: ""}, {Kind: "del", K: "a"},
			{Kind: "up", K: "b", V: "1"}, {Kind: "leave"},
		}},
		MaxOps:  map[int]int{0: ops},
		Digests: [][2]int{{1, 0}, {0, 1}}, MaxDigests: digests,
		Perms: "id", MaxDups: dups, MaxInflight: 3, MaxHolds: holds,
		Joins: [][2]int{{0, 1}}, MaxJoins: 1,
		WritesAfterLeave: true,
		Oracles: OracleSet{C02: true, C14: true},
	}
}

// S9: entries of different sizes: at 170 bytes two small entries fit one
// datagram, a small and the long one do not. A delta that skips the entry that
// does not fit and carries a later, smaller one is no longer a version prefix.
func S9(maxPacket, ops, digests, dups, holds int) *Scenario {
	return &Scenario{
		Name: "S9-mixed-entry-sizes", IDs: []string{"nX", "nO"}, MaxPacket: maxPacket,
		Init: []Event{ev("join", 1, 0)},
		Ops: map[int][]Event{0: {
			{Kind: "up", K: "a", V: "1"}, {Kind: "up", K: "b", V: "22222"}, {Kind: "up", K: "c", V: "1"}, {Kind: "del", K: "a"},
		}},
		MaxOps:  map[int]int{0: ops},
		Digests: [][2]int{{1, 0}, {0, 1}}, MaxDigests: digests,
		Perms: "id", MaxDups: dups, MaxInflight: 3, MaxHolds: holds,
		Oracles: OracleSet{C02: true, C14: true},
	}
}

// S10: cold joins: nobody knows anybody at the start, so the first contact
// (either way round, with or without state on either side, with a third node
// known only to the seed) is a TCP join whose reply names unknown nodes.
func S10(maxPacket, ops, digests, dups, holds int) *Scenario {
	return &Scenario{
		Name: "S10-cold-join", IDs: []string{"nX", "nO", "nQ"}, MaxPacket: maxPacket,
		Ops: map[int][]Event{
			0: {{Kind: "up", K: "a", V: "1"}, {Kind: "up", K: "b", V: "1"}, {Kind: "del", K: "a"}, {Kind: "up", K: "a", V: ""}},
			1: {{Kind: "up", K: "c", V: "1"}},
		},
		MaxOps:  map[int]int{0: ops, 1: 1},
		Digests: [][2]int{{1, 0}, {0, 1}}, MaxDigests: digests,
		Perms: "id", MaxDups: dups, MaxInflight: 3, MaxHolds: holds,
		Joins: [][2]int{{0, 1}, {1, 0}, {2, 1}, {0, 2}}, MaxJoins: 2,
		Echo: []int{0}, MaxEcho: 1,
		Oracles: OracleSet{C02: true, C14: true},
	}
}

// ExactFitValue returns a value v such that the delta datagram nX sends for
// its single entry k=v at the given version is exactly size bytes long.
func ExactFitValue(k string, version uint64, size int) string {
	for l := 1; l < size; l++ {
		v := string(make([]byte, l))
		b := []byte(v)
		for i := range b {
			b[i] = 'f'
		}
		v = string(b)
		enc, err := gossip.VEncodeDelta(gossip.VDeltaHeader{NodeID: "nX", Addr: addrOf(0)},
			gossip.VDelta{{ID: "nX", Addr: addrOf(0), Entries: []gossip.Entry{{Key: k, Value: v, Version: version}}}}, 1<<20)
		if err == nil && len(enc) == size {
			return v
		}
	}
	panic("gw: no value makes the datagram exactly the packet size")
}

// S11: datagrams that are exactly as large as the maximum packet size: the
// owner writes a small key, then one whose delta fills a datagram to the last
// byte, then another small one.
func S11(maxPacket, ops, digests, dups, holds int) *Scenario {
	return &Scenario{
		Name: "S11-exact-fit", IDs: []string{"nX", "nO"}, MaxPacket: maxPacket,
		Init: []Event{ev("join", 1, 0)},
		Ops: map[int][]Event{0: {
			{Kind: "up", K: "a", V: "1"}, {Kind: "up", K: "b", V: ExactFitValue("b", 2, maxPacket)}, {Kind: "up", K: "c", V: "1"},
		}},
		MaxOps:  map[int]int{0: ops},
		Digests: [][2]int{{1, 0}, {0, 1}}, MaxDigests: digests,
		Perms: "id", MaxDups: dups, MaxInflight: 3, MaxHolds: holds,
		Oracles: OracleSet{C02: true, C14: true},
	}
}

// Raw: keys and values written "0x:<hex>" in a scenario stand for those bytes
// (events are stored as JSON, which cannot carry strings that are not UTF-8).
func Raw(s string) string {
	if strings.HasPrefix(s, "0x:") {
		if b, err := hex.DecodeString(s[3:]); err == nil {
			return string(b)
		}
	}
	return s
}

// S12: keys and values are byte strings, not text: a key and a value that are
// not valid UTF-8 (an endpoint id taken from a percent-encoded URL path may
// hold any bytes) are written, overwritten and deleted like any other.
func S12(maxPacket, ops, digests, dups, holds int) *Scenario {
	return &Scenario{
		Name: "S12-binary-keys-values", IDs: []string{"nX", "nO"}, MaxPacket: maxPacket,
		Init: []Event{ev("join", 1, 0)},
		Ops: map[int][]Event{0: {
			{Kind: "up", K: "0x:6bff", V: "1"}, {Kind: "up", K: "a", V: "0x:fe80"}, {Kind: "up", K: "a", V: "ok"}, {Kind: "del", K: "0x:6bff"},
		}},
		MaxOps:  map[int]int{0: ops},
		Digests: [][2]int{{1, 0}, {0, 1}}, MaxDigests: digests,
		Perms: "id", MaxDups: dups, MaxInflight: 3, MaxHolds: holds,
		Oracles: OracleSet{C02: true, C14: true},
	}
}

// ByName rebuilds a scenario from its name and parameters (used by replay).
type Params struct {
	Name                                           string
	MaxPacket, Ops, Digests, Dups, Holds, N        int
	Sweeps, Suspects                               int
	Flag                                           bool
	Closure                                        bool
	Oracles                                        OracleSet
}

func Build(p Params) *Scenario {
	var sc *Scenario
	switch p.Name {
	case "S1":
		sc = S1(p.MaxPacket, p.Ops, p.Digests, p.Dups, p.Holds)
	case "S2":
		sc = S2(p.MaxPacket, p.Ops, p.Digests, p.Dups, p.Holds, p.Flag)
	case "S3":
		sc = S3(p.MaxPacket, p.Ops, p.Digests, p.Dups, p.Holds)
	case "S4":
		sc = S4(p.N, p.Digests, p.Dups, p.Holds, p.Sweeps, p.Suspects, p.Flag, p.Ops)
	case "S5":
		sc = S5(p.MaxPacket, p.Ops, p.Digests, p.Dups, p.Holds)
	case "S6":
		sc = S6(p.MaxPacket, p.Ops, p.Digests, p.Dups, p.Holds, p.Flag)
	case "S7":
		sc = S7(p.MaxPacket, p.Ops, p.Digests, p.Holds)
	case "S8":
		sc = S8(p.MaxPacket, p.Ops, p.Digests, p.Dups, p.Holds)
	case "S9":
		sc = S9(p.MaxPacket, p.Ops, p.Digests, p.Dups, p.Holds)
	case "S10":
		sc = S10(p.MaxPacket, p.Ops, p.Digests, p.Dups, p.Holds)
	case "S11":
		sc = S11(p.MaxPacket, p.Ops, p.Digests, p.Dups, p.Holds)
	case "S12":
		sc = S12(p.MaxPacket, p.Ops, p.Digests, p.Dups, p.Holds)
	default:
		panic("unknown scenario " + p.Name)
	}
	sc.Closure = p.Closure
	sc.Oracles = p.Oracles
	return sc
}

// BigValue does not fit any datagram of the sizes used by S7.
var BigValue = func() string {
	b := make([]byte, 150)
	for i := range b {
		b[i] = 'x'
	}
	return string(b)
}()

// S7: an entry larger than one datagram (finding F1): everything the owner
// writes after it can never be propagated by UDP gossip.
func S7(maxPacket, ops, digests, holds int) *Scenario {
	return &Scenario{
		Name: "S7-oversize-entry", IDs: []string{"nX", "nO"}, MaxPacket: maxPacket,
		Init: []Event{ev("join", 1, 0)},
		Ops: map[int][]Event{0: {{Kind: "up", K: "a", V: "1"}, {Kind: "up", K: "b", V: BigValue}, {Kind: "up", K: "c", V: "1"}}},
		MaxOps: map[int]int{0: ops},
		Digests: [][2]int{{1, 0}, {0, 1}}, MaxDigests: digests,
		Perms: "id", MaxInflight: 3, MaxHolds: holds,
	}
}
