package gw

import (
	"verifharness/internal/mc"
)

// Sys adapts a scenario to the model checker.
type Sys struct {
	Sc    *Scenario
	Stats *Stats
}

func (s *Sys) New() mc.Instance[Event] { return NewWorld(s.Sc, s.Stats) }

func ev(kind string, a, b int) Event { return Event{Kind: kind, A: a, B: b} }

func pairs(n int) [][2]int {
	var out [][2]int
	for i := 0; i < n; i++ {
		for j := 0; j < n; j++ {
			if i != j {
				out = append(out, [2]int{i, j})
			}
		}
	}
	return out
}

var kvOps = []Event{
	{Kind: "up", K: "a", V: "1"},
	{Kind: "up", K: "a", V: "2"},
	{Kind: "up", K: "b", V: "1"},
	{Kind: "del", K: "a"},
}

var kvOpsCompact = []Event{
	{Kind: "up", K: "a", V: "1"},
	{Kind: "up", K: "b", V: "1"},
	{Kind: "del", K: "a"},
	{Kind: "del", K: "b"},
	{Kind: "compact"},
}

// S1: owner X(0), relay R(1), observer O(2); O and X cannot talk directly,
// so everything O learns about X comes through R. Small packets truncate
// deltas to one or two entries.
func S1(maxPacket, ops, digests, dups, holds int) *Scenario {
	return &Scenario{
		Name: "S1-relay-truncation", IDs: []string{"nX", "nR", "nO"}, MaxPacket: maxPacket,
		Blocked: [][2]int{{0, 2}, {2, 0}},
		Init:    []Event{ev("join", 1, 0), ev("join", 2, 1)},
		Ops:     map[int][]Event{0: kvOps}, MaxOps: map[int]int{0: ops},
		Digests: [][2]int{{1, 0}, {0, 1}, {2, 1}, {1, 2}}, MaxDigests: digests,
		Perms: "id", MaxDups: dups, MaxInflight: 3, MaxHolds: holds,
		Oracles: OracleSet{C02: true, C13: true, C14: true},
	}
}

// S2: compaction: tombstones compacted before / after the observer saw them,
// partial delivery around the marker.
func S2(maxPacket, ops, digests, dups, holds int, relay bool) *Scenario {
	sc := &Scenario{
		Name: "S2-compaction", IDs: []string{"nX", "nO"}, MaxPacket: maxPacket,
		Init: []Event{ev("join", 1, 0)},
		Ops:  map[int][]Event{0: kvOpsCompact}, MaxOps: map[int]int{0: ops},
		Digests: [][2]int{{1, 0}, {0, 1}}, MaxDigests: digests,
		Perms: "id", MaxDups: dups, MaxInflight: 3, MaxHolds: holds,
		Oracles: OracleSet{C02: true, C13: true, C14: true},
	}
	if relay {
		sc.Name = "S2r-compaction-relay"
		sc.IDs = []string{"nX", "nR", "nO"}
		sc.Blocked = [][2]int{{0, 2}, {2, 0}}
		sc.Init = []Event{ev("join", 1, 0), ev("join", 2, 1)}
		sc.Digests = [][2]int{{1, 0}, {2, 1}, {1, 2}}
	}
	return sc
}

// S3: two owners whose deltas share a datagram (empty node header at 160).
func S3(maxPacket, ops, digests, dups, holds int) *Scenario {
	small := []Event{{Kind: "up", K: "a", V: "1"}, {Kind: "up", K: "b", V: "1"}, {Kind: "del", K: "a"}}
	return &Scenario{
		Name: "S3-two-owners", IDs: []string{"nX", "nY", "nO"}, MaxPacket: maxPacket,
		Init: []Event{ev("join", 1, 0), ev("join", 2, 0), ev("join", 2, 1)},
		Ops:  map[int][]Event{0: small, 1: small}, MaxOps: map[int]int{0: ops, 1: ops},
		Digests: [][2]int{{2, 0}, {2, 1}, {0, 1}, {1, 0}}, MaxDigests: digests,
		Perms: "all", MaxDups: dups, MaxInflight: 3, MaxHolds: holds,
		Oracles: OracleSet{C02: true, C13: true, C14: true},
	}
}
