// Package mc is a small explicit-state model checker whose transition
// function is the real implementation: a state is identified with an event
// history, a successor is produced by replaying the history on a fresh
// instance and applying one more event, and states are de-duplicated on a
// canonical key computed through the implementation's observers.
package mc

import (
	"crypto/sha256"
	"fmt"
	"runtime"
	"sort"
	"sync"
	"sync/atomic"
	"time"
)

// Violation is one oracle failure.
type Violation struct {
	Property string `json:"property"`
	Clause   string `json:"clause"`
	// Sig is the structural signature matched against known_findings.json.
	Sig string `json:"sig"`
	Msg string `json:"msg"`
}

// Instance is one live copy of the system under exploration.
type Instance[E any] interface {
	// Enabled lists the events enabled in the current state in a
	// deterministic order.
	Enabled() []E
	// Apply executes the event against the real code and evaluates all
	// state and transition oracles.
	Apply(e E) []Violation
	// Replay executes the event without evaluating oracles (it is part of
	// an already checked history prefix).
	Replay(e E)
	// Canon returns the canonical key of the current state.
	Canon() string
	// Final is called once on every newly discovered state, after Canon. It
	// may destroy the instance (e.g. run a convergence closure).
	Final() []Violation
}

type System[E any] interface {
	New() Instance[E]
}

type node[E any] struct {
	parent *node[E]
	ev     E
	depth  int32
	par    int32 // index of parent in its level (for deterministic ordering)
	ord    int32
}

func (n *node[E]) history() []E {
	h := make([]E, n.depth)
	for c := n; c != nil && c.depth > 0; c = c.parent {
		h[c.depth-1] = c.ev
	}
	return h
}

type Found[E any] struct {
	V       Violation
	History []E
	Known   bool
}

type Result[E any] struct {
	States      int
	Transitions int
	// DepthCompleted: every state at depth < DepthCompleted was expanded.
	DepthCompleted int
	Exhaustive     bool // frontier emptied: the bounded space is fully covered
	CapHit         string
	Violations     []Found[E] // not known findings
	Known          []Found[E] // one example per known-finding signature
	KnownHits      int
	LevelSizes     []int
	ReplayChecks   int // determinism re-checks performed (all agreed)
	Samples        [][]E
	Wall           time.Duration
}

type Options struct {
	MaxDepth      int
	MaxStates     int
	Deadline      time.Duration
	Workers       int
	MaxViolations int
	// DeterminismEvery: every n-th discovered state is replayed a second
	// time and must give the same canonical key.
	DeterminismEvery int
	// Known reports whether a violation is a recorded finding (it is not
	// counted as a violation and the run continues).
	Known func(v Violation) bool
	// ExploreBeyondKnown: keep exploring the state reached by a transition
	// whose only violations are recorded findings (otherwise the branch is
	// pruned there).
	ExploreBeyondKnown bool
}

type key [16]byte

func hashKey(s string) key {
	h := sha256.Sum256([]byte(s))
	var k key
	copy(k[:], h[:16])
	return k
}

const shards = 256

type seenSet struct {
	mu [shards]sync.Mutex
	m  [shards]map[key]struct{}
}

func newSeen() *seenSet {
	s := &seenSet{}
	for i := range s.m {
		s.m[i] = map[key]struct{}{}
	}
	return s
}

func (s *seenSet) add(k key) bool {
	i := int(k[0])
	s.mu[i].Lock()
	_, ok := s.m[i][k]
	if !ok {
		s.m[i][k] = struct{}{}
	}
	s.mu[i].Unlock()
	return !ok
}

// HarnessError is raised (panic) for replay divergence and similar failures
// of the machinery itself.
type HarnessError struct{ Msg string }

func (h HarnessError) Error() string { return h.Msg }

func replay[E any](sys System[E], h []E) Instance[E] {
	in := sys.New()
	for _, e := range h {
		in.Replay(e)
	}
	return in
}

// Explore runs a level-synchronous breadth-first search.
func Explore[E any](sys System[E], opt Options) *Result[E] {
	start := time.Now()
	if opt.Workers <= 0 {
		opt.Workers = runtime.NumCPU()
	}
	if opt.MaxViolations <= 0 {
		opt.MaxViolations = 3
	}
	res := &Result[E]{}
	seen := newSeen()
	root := &node[E]{}
	in0 := sys.New()
	seen.add(hashKey(in0.Canon()))
	var states, transitions, replayChecks, knownHits int64 = 1, 0, 0, 0
	var mu sync.Mutex // protects res.Violations / res.Known
	knownSigs := map[string]bool{}
	record := func(v Violation, h []E) {
		mu.Lock()
		defer mu.Unlock()
		if opt.Known != nil && opt.Known(v) {
			knownHits++
			if !knownSigs[v.Sig] {
				knownSigs[v.Sig] = true
				res.Known = append(res.Known, Found[E]{V: v, History: h, Known: true})
			}
			return
		}
		if len(res.Violations) < opt.MaxViolations {
			res.Violations = append(res.Violations, Found[E]{V: v, History: h})
		}
	}
	for _, v := range in0.Final() {
		record(v, nil)
	}
	frontier := []*node[E]{root}
	for depth := 0; ; depth++ {
		if len(frontier) == 0 {
			res.Exhaustive = true
			break
		}
		if opt.MaxDepth > 0 && depth >= opt.MaxDepth {
			res.CapHit = fmt.Sprintf("depth bound %d reached with %d unexpanded states", opt.MaxDepth, len(frontier))
			break
		}
		if opt.MaxStates > 0 && int(states) >= opt.MaxStates {
			res.CapHit = fmt.Sprintf("state cap %d at depth %d", opt.MaxStates, depth)
			break
		}
		res.LevelSizes = append(res.LevelSizes, len(frontier))
		nexts := make([][]*node[E], opt.Workers)
		var cursor int64 = -1
		var timedOut atomic.Bool
		var wg sync.WaitGroup
		var panicMu sync.Mutex
		var panicVal any
		for w := 0; w < opt.Workers; w++ {
			wg.Add(1)
			go func(w int) {
				defer wg.Done()
				defer func() {
					if r := recover(); r != nil {
						panicMu.Lock()
						if panicVal == nil {
							panicVal = r
						}
						panicMu.Unlock()
					}
				}()
				for {
					i := int(atomic.AddInt64(&cursor, 1))
					if i >= len(frontier) {
						return
					}
					if opt.Deadline > 0 && time.Since(start) > opt.Deadline {
						timedOut.Store(true)
						return
					}
					h := frontier[i].history()
					base := replay(sys, h)
					evs := base.Enabled()
					for j, ev := range evs {
						var in Instance[E]
						if j == len(evs)-1 {
							in = base
						} else {
							in = replay(sys, h)
						}
						vs := in.Apply(ev)
						atomic.AddInt64(&transitions, 1)
						if len(vs) > 0 {
							hh := append(append([]E{}, h...), ev)
							unknown := false
							for _, v := range vs {
								record(v, hh)
								if opt.Known == nil || !opt.Known(v) {
									unknown = true
								}
							}
							if unknown || !opt.ExploreBeyondKnown {
								continue // pruned
							}
						}
						canon := in.Canon()
						if !seen.add(hashKey(canon)) {
							continue
						}
						n := atomic.AddInt64(&states, 1)
						if opt.DeterminismEvery > 0 && n%int64(opt.DeterminismEvery) == 0 {
							hh := append(append([]E{}, h...), ev)
							if replay(sys, hh).Canon() != canon {
								panic(HarnessError{Msg: fmt.Sprintf("replay divergence on history %v", hh)})
							}
							atomic.AddInt64(&replayChecks, 1)
						}
						fv := in.Final()
						if len(fv) > 0 {
							hh := append(append([]E{}, h...), ev)
							for _, v := range fv {
								record(v, hh)
							}
							continue // pruned
						}
						nexts[w] = append(nexts[w], &node[E]{parent: frontier[i], ev: ev, depth: int32(depth + 1), par: int32(i), ord: int32(j)})
					}
				}
			}(w)
		}
		wg.Wait()
		if panicVal != nil {
			panic(panicVal)
		}
		if timedOut.Load() {
			res.CapHit = fmt.Sprintf("deadline %s hit while expanding depth %d", opt.Deadline, depth)
			break
		}
		var next []*node[E]
		for _, n := range nexts {
			next = append(next, n...)
		}
		sort.Slice(next, func(a, b int) bool {
			if next[a].par != next[b].par {
				return next[a].par < next[b].par
			}
			return next[a].ord < next[b].ord
		})
		res.DepthCompleted = depth + 1
		mu.Lock()
		nv := len(res.Violations)
		mu.Unlock()
		if nv >= opt.MaxViolations {
			res.CapHit = "violation limit"
			break
		}
		// keep a few sample histories
		if len(next) > 0 {
			res.Samples = append(res.Samples, next[len(next)/2].history())
			if len(res.Samples) > 6 {
				res.Samples = res.Samples[len(res.Samples)-6:]
			}
		}
		frontier = next
	}
	res.States = int(states)
	res.Transitions = int(transitions)
	res.ReplayChecks = int(replayChecks)
	res.KnownHits = int(knownHits)
	res.Wall = time.Since(start)
	return res
}
