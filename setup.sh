#!/bin/bash
# Builds the harness once so that the Go build cache is warm (offline).
set -e
cd "$(dirname "$0")"
export GOFLAGS=-mod=mod GOPROXY=off
SCRATCH=$(mktemp -d /tmp/verif.XXXXXX)
trap 'rm -rf "$SCRATCH"' EXIT
for MODE in std; do
  OVERLAY=$(python3 tools/mkoverlay.py "$SCRATCH/$MODE" $MODE)
  ( cd harness && cp /repo/go.sum go.sum && go build -tags verif -overlay "$OVERLAY" -o "$SCRATCH/vcheck-$MODE" ./cmd/vcheck )
done
echo setup ok
