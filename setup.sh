#!/bin/bash
# Builds the harness once per build mode so that the Go build cache is warm
# (offline; everything comes from /repo, /verif and the module cache).
set -e
cd "$(dirname "$0")"
export GOFLAGS=-mod=mod GOPROXY=off
SCRATCH=$(mktemp -d /tmp/verif.XXXXXX)
trap 'rm -rf "$SCRATCH"' EXIT
cp /repo/go.sum harness/go.sum
OV=$(python3 tools/mkoverlay.py "$SCRATCH/std" std)
( cd harness && go build -tags verif -overlay "$OV" -o "$SCRATCH/vcheck-std" ./cmd/vcheck )
( cd harness && go build -race -tags verif -overlay "$OV" -o "$SCRATCH/vcheck-race" ./cmd/vcheck )
OV=$(python3 tools/mkoverlay.py "$SCRATCH/sched" sched)
( cd harness && go build -tags verif,vsched -overlay "$OV" -o "$SCRATCH/vcheck-sched" ./cmd/vcheck )
echo setup ok
